package hapsim

// Profiles: generator options + controller configuration sampling + fault set +
// oracle selection, per property.

import (
	"fmt"
	"math/rand/v2"
	"os"
	"strings"
)

// Profile builds the configuration of run number i of a batch.
type Profile struct {
	Name    string
	Prop    string
	Weight  int
	Build   func(seed uint64, tier string) *RunConfig
	Oracles OracleSet
	// Custom, when set, runs instead of the generic executor (L0 / L1 profiles).
	Custom func(r *Run) error
}

var profiles = map[string][]*Profile{}

func register(p *Profile) {
	if p.Weight == 0 {
		p.Weight = 1
	}
	profiles[p.Prop] = append(profiles[p.Prop], p)
}

func pickProfile(prop string, seed uint64) *Profile {
	ps := profiles[prop]
	if len(ps) == 0 {
		return nil
	}
	total := 0
	for _, p := range ps {
		total += p.Weight
	}
	x := int(seed % uint64(total))
	for _, p := range ps {
		if x < p.Weight {
			return p
		}
		x -= p.Weight
	}
	return ps[0]
}

func profileByName(prop, name string) *Profile {
	for _, p := range profiles[prop] {
		if p.Name == name {
			return p
		}
	}
	return nil
}

// avoidFlags returns the constraints requested by the driver (HAPSIM_AVOID).
func avoidFlags() ([]string, map[string]bool) {
	var list []string
	m := map[string]bool{}
	for _, a := range strings.Split(os.Getenv("HAPSIM_AVOID"), ",") {
		if a = strings.TrimSpace(a); a != "" {
			list = append(list, a)
			m[a] = true
		}
	}
	return list, m
}

func cfgRng(seed uint64) *rand.Rand { return rand.New(rand.NewPCG(seed, 0x63666772)) }

func pickInt(r *rand.Rand, v ...int) int { return v[r.IntN(len(v))] }

// sampleCtl draws the controller's command-line configuration.
func sampleCtl(r *rand.Rand) CtlConfig {
	c := CtlConfig{
		BackendShards:            pickInt(r, 0, 0, 1, 3, 8),
		ReloadIntervalMs:         pickInt(r, 0, 0, 1000, 5000),
		ReloadRetryMs:            pickInt(r, 2000, 30000),
		RateLimitUpdate:          []float64{0.5, 2, 10}[r.IntN(3)],
		WaitBeforeUpdateMs:       pickInt(r, 0, 200, 1500),
		WatchIngressWithoutClass: r.IntN(3) == 0,
		IngressClassPrecedence:   r.IntN(3) == 0,
		SortEndpointsBy:          []string{"endpoint", "ip", "name"}[r.IntN(3)],
	}
	if r.IntN(3) == 0 {
		c.DefaultService = "a/s1"
		if _, avoid := avoidFlags(); avoid["dedicated_default_service"] {
			c.DefaultService = "a/dflt" // a service no ingress rule uses
		}
	}
	if r.IntN(3) == 0 {
		c.DefaultSSLCertificate = "a/tls1"
	}
	if r.IntN(6) == 0 {
		c.AllowCrossNamespace = true
	}
	return c
}

// keys whose rendering depends on things the simulation does not provide
var alwaysExcludedIngressKeys = []string{"waf", "tcp-service-port", "cert-signer"}

func tierOps(tier string, qmin, qmax int) (int, int) {
	if tier == "thorough" {
		return qmin * 2, qmax * 2
	}
	return qmin, qmax
}

func init() {
	// ---------------- C01: incremental resync converges to the full-sync configuration
	register(&Profile{Name: "churn", Prop: "C01", Weight: 3,
		Oracles: OracleSet{Property: "C01", FreshAtSync: true, EffectiveAtSync: true},
		Build: func(seed uint64, tier string) *RunConfig {
			r := cfgRng(seed)
			mn, mx := tierOps(tier, 8, 28)
			rc := &RunConfig{Property: "C01", Profile: "churn", Seed: seed, Ctl: sampleCtl(r), MapOrder: r.IntN(2) == 0,
				Lagfree: r.IntN(4) == 0, MidSched: r.IntN(2) == 0}
			rc.Ctl.TCPConfigMap = r.IntN(5) == 0
			rc.World, rc.Ops = GenerateRun(seed, GenOptions{Sparse: r.IntN(3) == 0, ExcludeIngressKeys: alwaysExcludedIngressKeys, MinOps: mn, MaxOps: mx, TCPConfigMap: rc.Ctl.TCPConfigMap,
				QuiesceEvery: pickInt(r, 3, 5, 9), KeysPerRun: pickInt(r, 4, 7, 10)})
			return rc
		}})
	register(&Profile{Name: "churn-tcp", Prop: "C01", Weight: 1,
		Oracles: OracleSet{Property: "C01", FreshAtSync: true, EffectiveAtSync: true},
		Build: func(seed uint64, tier string) *RunConfig {
			r := cfgRng(seed)
			mn, mx := tierOps(tier, 8, 24)
			rc := &RunConfig{Property: "C01", Profile: "churn-tcp", Seed: seed, Ctl: sampleCtl(r), MapOrder: r.IntN(2) == 0,
				Lagfree: r.IntN(4) == 0, MidSched: r.IntN(2) == 0}
			rc.World, rc.Ops = GenerateRun(seed, GenOptions{Sparse: r.IntN(3) == 0, IngressKeys: []string{"tcp-service-port", "ssl-redirect", "balance-algorithm", "timeout-server", "initial-weight", "backend-protocol"},
				MinOps: mn, MaxOps: mx, QuiesceEvery: pickInt(r, 3, 5), KeysPerRun: 4})
			return rc
		}})

	// ConfigMap based TCP services (legacy `--tcp-services-configmap`): rebuilt from scratch by every sync, no tracking
	register(&Profile{Name: "churn-tcpcm", Prop: "C01", Weight: 1,
		Oracles: OracleSet{Property: "C01", FreshAtSync: true, EffectiveAtSync: true},
		Build: func(seed uint64, tier string) *RunConfig {
			r := cfgRng(seed)
			mn, mx := tierOps(tier, 8, 22)
			ctl := sampleCtl(r)
			ctl.TCPConfigMap = true
			rc := &RunConfig{Property: "C01", Profile: "churn-tcpcm", Seed: seed, Ctl: ctl, MapOrder: r.IntN(2) == 0,
				Lagfree: r.IntN(4) == 0, MidSched: r.IntN(2) == 0}
			w := map[string]int{"tcpcm_change": 10, "ing_create": 3, "ing_update": 4, "ing_delete": 2, "ep_scale": 8, "svc_update": 3, "svc_delete": 1, "svc_create": 2,
				"secret_rotate": 5, "secret_delete": 2, "secret_create": 3, "renotify": 3, "global_change": 2, "advance": 3, "pod_term": 2}
			rc.World, rc.Ops = GenerateRun(seed, GenOptions{Sparse: true, TCPConfigMap: true, IngressKeys: []string{"balance-algorithm", "timeout-server"},
				MinOps: mn, MaxOps: mx, QuiesceEvery: pickInt(r, 3, 5), KeysPerRun: 2, W: w})
			return rc
		}})

	// C14 at L2: the batch a reconciliation takes from the watchers reaches the services (class changes make
	// full-kind and partial-kind events share batches)
	register(&Profile{Name: "handoff-l2", Prop: "C14", Weight: 1,
		Oracles: OracleSet{Property: "C14", Handoff: true},
		Build: func(seed uint64, tier string) *RunConfig {
			r := cfgRng(seed)
			mn, mx := tierOps(tier, 6, 18)
			ctl := sampleCtl(r)
			ctl.Acme = true // brings the leadership seam in: the leader subscriber is a producer of reconciliations too
			rc := &RunConfig{Property: "C14", Profile: "handoff-l2", Seed: seed, Ctl: ctl, Lagfree: r.IntN(2) == 0, MidSched: r.IntN(2) == 0}

			withFaults := r.IntN(2) == 0
			quiesceEvery := pickInt(r, 4, 8)
			if withFaults {
				quiesceEvery = 0 // (no sync point while updates may still fail)
			}
			w := map[string]int{"class_change": 12, "ing_create": 6, "ing_update": 10, "ing_delete": 4, "ing_ann": 6, "svc_update": 4, "ep_scale": 8, "secret_rotate": 4, "global_change": 4, "renotify": 3, "advance": 4}
			rc.World, rc.Ops = GenerateRun(seed, GenOptions{Sparse: r.IntN(2) == 0, ExcludeIngressKeys: alwaysExcludedIngressKeys, MinOps: mn, MaxOps: mx,
				QuiesceEvery: quiesceEvery, KeysPerRun: 4, W: w})
			// the lease is acquired and lost while events are pending
			var ops []Op
			leader := false
			for _, op := range rc.Ops {
				ops = append(ops, op)
				if r.IntN(4) == 0 {
					leader = !leader
					ops = append(ops, Op{Type: "leader", Note: fmt.Sprint(leader)})
				}
			}
			rc.Ops = ops
			if withFaults {
				// reconciliations that fail, and are retried, while events keep arriving; the faults stop before the end
				// (a failing synchronous reload makes the update, hence the reconciliation, fail)
				rc.Faults = map[string]int{"haproxy.reload_fail": pickInt(r, 100, 250, 500)}
				rc.Ctl.ReloadIntervalMs = 0
				rc.Ctl.ReloadRetryMs = pickInt(r, 2000, 5000)
				rc.MaxFaults = 1 + r.IntN(3)
				last := rc.Ops[len(rc.Ops)-1]
				rc.Ops = append(rc.Ops[:len(rc.Ops)-1], Op{Type: "faults_off"}, Op{Type: "advance", Ms: 31000}, last)
			}
			return rc
		}})

	// ---------------- C05: files on disk hold exactly the current model
	register(&Profile{Name: "shards", Prop: "C05",
		Oracles: OracleSet{Property: "C05", FreshEveryRec: true},
		Build: func(seed uint64, tier string) *RunConfig {
			r := cfgRng(seed)
			mn, mx := tierOps(tier, 8, 24)
			ctl := sampleCtl(r)
			ctl.BackendShards = pickInt(r, 0, 1, 3, 8, 8)
			rc := &RunConfig{Property: "C05", Profile: "shards", Seed: seed, Ctl: ctl, MapOrder: r.IntN(2) == 0, Lagfree: true}
			w := map[string]int{}
			for k, v := range defaultWeights {
				w[k] = v
			}
			w["global_change"] = 10
			w["ing_delete"] = 8
			w["svc_delete"] = 3
			rc.Ctl.TCPConfigMap = r.IntN(5) == 0
			rc.World, rc.Ops = GenerateRun(seed, GenOptions{Sparse: r.IntN(3) == 0, ExcludeIngressKeys: alwaysExcludedIngressKeys, MinOps: mn, MaxOps: mx, TCPConfigMap: rc.Ctl.TCPConfigMap,
				QuiesceEvery: 4, KeysPerRun: pickInt(r, 3, 6), W: w})
			return rc
		}})

	// focus profiles shared by several properties: (name, forced ingress keys, forced global keys)
	type focus struct {
		name    string
		ing     []string
		glb     []string
		weights map[string]int
		initial map[string]string
		values  map[string][]string
	}
	focuses := []focus{
		{"basic-auth", []string{"auth-secret", "auth-realm"}, nil, map[string]int{"ing_ann": 14, "secret_delete": 8, "secret_create": 8}, nil,
			map[string][]string{"auth-secret": {"auth", "auth", "auth", "auth2", "missing"}}},
		{"ext-auth", []string{"auth-url", "oauth", "auth-external-placement"}, []string{"auth-proxy", "external-has-lua"}, map[string]int{"ing_ann": 16, "ing_create": 10, "ing_delete": 8, "global_change": 3},
			map[string]string{"external-has-lua": "true", "auth-proxy": "_front__auth:14415-14419"},
			map[string][]string{"auth-url": {"http://10.9.9.9:8000/auth", "https://10.9.9.9:8000/auth", "http://10.9.9.8:8000/auth", "http://10.9.9.7:8001/check", "http://10.9.9.6:8002/x", "http://authhost.local/x", "svc://a/s2:80", "bad::url", "svc://missing:80"}}},
		{"tcp", []string{"tcp-service-port"}, nil, map[string]int{"ing_update": 18, "ing_create": 10, "ing_delete": 8}, nil,
			map[string][]string{"tcp-service-port": {"7000", "7000", "7000", "7001"}}},
		{"tls", []string{"auth-tls-secret", "secure-crt-secret", "secure-verify-ca-secret", "secure-backends"}, nil, map[string]int{"secret_rotate": 12, "secret_delete": 6, "secret_create": 8, "secret_break": 3}, nil, nil},
		{"affinity", []string{"affinity", "session-cookie-preserve", "session-cookie-value-strategy", "dynamic-scaling", "slots-min-free", "blue-green-deploy", "initial-weight"}, []string{"dynamic-scaling", "drain-support"}, map[string]int{"ep_scale": 25, "ep_ready": 10, "ep_replace": 12, "ep_reorder": 6, "pod_term": 6}, nil, nil},
	}
	mkFocus := func(prop string, f focus, or OracleSet, lagfree func(r *rand.Rand) bool, shards bool) {
		weight := 1
		if f.name == "tcp" {
			weight = 3 // several ingresses on one TCP port is the rare structure (seeded change C05-m2)
		}
		register(&Profile{Name: "focus-" + f.name, Prop: prop, Weight: weight, Oracles: or,
			Build: func(seed uint64, tier string) *RunConfig {
				r := cfgRng(seed)
				mn, mx := tierOps(tier, 8, 26)
				ctl := sampleCtl(r)
				if shards {
					ctl.BackendShards = pickInt(r, 0, 1, 3, 8, 8)
				}
				rc := &RunConfig{Property: prop, Profile: "focus-" + f.name, Seed: seed, Ctl: ctl, MapOrder: r.IntN(2) == 0,
					Lagfree: lagfree(r), MidSched: r.IntN(2) == 0}
				w := map[string]int{}
				for k, v := range defaultWeights {
					w[k] = v
				}
				for k, v := range f.weights {
					w[k] = v
				}
				rc.World, rc.Ops = GenerateRun(seed, GenOptions{Sparse: r.IntN(3) != 0, ExcludeIngressKeys: []string{"waf", "cert-signer"}, ForceIngressKeys: f.ing, ForceGlobalKeys: f.glb, InitialGlobal: f.initial, ValueOverrides: f.values,
					MinOps: mn, MaxOps: mx, QuiesceEvery: pickInt(r, 3, 5), KeysPerRun: pickInt(r, 1, 3), AnnChance: 2, W: w})
				return rc
			}})
	}
	sometimesLagfree := func(r *rand.Rand) bool { return r.IntN(4) == 0 }
	alwaysLagfree := func(r *rand.Rand) bool { return true }
	for _, f := range focuses {
		mkFocus("C01", f, OracleSet{Property: "C01", FreshAtSync: true, EffectiveAtSync: true}, sometimesLagfree, false)
		mkFocus("C05", f, OracleSet{Property: "C05", FreshEveryRec: true}, alwaysLagfree, true)
		mkFocus("C07", f, OracleSet{Property: "C07", Loadable: true}, sometimesLagfree, false)
	}

	// ---------------- C02: running HAProxy never diverges from disk after runtime updates
	dynWeights := map[string]int{"ep_scale": 25, "ep_ready": 10, "ep_replace": 12, "ep_reorder": 8, "pod_term": 4, "secret_rotate": 8, "ing_ann": 5, "ing_update": 3,
		"svc_update": 3, "global_change": 1, "renotify": 2, "advance": 6}
	dynKeys := []string{"affinity", "session-cookie-dynamic", "session-cookie-name", "session-cookie-strategy", "session-cookie-preserve", "session-cookie-value-strategy", "initial-weight",
		"blue-green-deploy", "blue-green-header", "blue-green-cookie", "backend-server-naming", "slots-min-free", "backend-server-slots-increment", "dynamic-scaling", "balance-algorithm", "maxconn-server",
		"assign-backend-server-id", "secure-backends", "ssl-redirect"}
	sockFaults := []string{"sock.dial_refused", "sock.write_fail", "sock.read_timeout", "sock.reset_before_exec", "sock.reset_after_exec", "sock.short_reads",
		"sock.nonok_reply", "sock.garbage_reply", "disk.read_fail"}
	mkDyn := func(name string, faults bool) {
		register(&Profile{Name: name, Prop: "C02", Weight: 1,
			Oracles: OracleSet{Property: "C02", EffectiveStep: true, EffectiveAtSync: true},
			Build: func(seed uint64, tier string) *RunConfig {
				r := cfgRng(seed)
				mn, mx := tierOps(tier, 10, 30)
				ctl := sampleCtl(r)
				rc := &RunConfig{Property: "C02", Profile: name, Seed: seed, Ctl: ctl, MapOrder: r.IntN(2) == 0, Lagfree: r.IntN(3) == 0, MidSched: r.IntN(2) == 0,
					Legacy24: r.IntN(5) == 0}
				if faults {
					rc.Faults = map[string]int{}
					n := 1 + r.IntN(4)
					for i := 0; i < n; i++ {
						rc.Faults[sockFaults[r.IntN(len(sockFaults))]] = pickInt(r, 20, 50, 150)
					}
					rc.MaxFaults = 1 + r.IntN(8)
				}
				rc.World, rc.Ops = GenerateRun(seed, GenOptions{Sparse: r.IntN(3) == 0, IngressKeys: dynKeys, MinOps: mn, MaxOps: mx, QuiesceEvery: pickInt(r, 3, 6),
					KeysPerRun: pickInt(r, 3, 6), W: dynWeights, InitialGlobal: map[string]string{"drain-support": []string{"true", "false"}[r.IntN(2)]}, NoForeignClass: true})
				return rc
			}})
	}
	mkDyn("dyn", false)
	mkDyn("dyn-faults", true)
	// blue/green selectors: use-server rules exist in the files only; a slot that changes group needs a reload
	// backends that are not updated dynamically (dynamic-scaling false) next to ones that are, endpoints in the
	// order of the API (--sort-endpoints-by=endpoint) and the same addresses coming back in another order
	register(&Profile{Name: "dyn-static", Prop: "C02", Weight: 1,
		Oracles: OracleSet{Property: "C02", EffectiveStep: true, EffectiveAtSync: true},
		Build: func(seed uint64, tier string) *RunConfig {
			r := cfgRng(seed)
			mn, mx := tierOps(tier, 8, 24)
			ctl := sampleCtl(r)
			ctl.SortEndpointsBy = "endpoint"
			rc := &RunConfig{Property: "C02", Profile: "dyn-static", Seed: seed, Ctl: ctl, MapOrder: r.IntN(2) == 0, Lagfree: r.IntN(2) == 0, MidSched: r.IntN(2) == 0}
			w := map[string]int{"ep_reorder": 20, "ep_scale": 10, "ep_replace": 10, "ep_ready": 5, "secret_rotate": 6, "ing_ann": 4, "renotify": 2, "advance": 5}
			rc.World, rc.Ops = GenerateRun(seed, GenOptions{Sparse: r.IntN(2) == 0, IngressKeys: []string{"dynamic-scaling", "balance-algorithm", "initial-weight", "ssl-redirect"},
				MinOps: mn, MaxOps: mx, QuiesceEvery: pickInt(r, 3, 6), KeysPerRun: 3, W: w, NoForeignClass: true,
				InitialGlobal: map[string]string{"dynamic-scaling": []string{"false", "false", "true"}[r.IntN(3)]}})
			return rc
		}})
	// certificates replaced through the socket (set ssl cert / commit ssl cert) with refused commands
	register(&Profile{Name: "dyn-cert-faults", Prop: "C02", Weight: 1,
		Oracles: OracleSet{Property: "C02", EffectiveStep: true, EffectiveAtSync: true},
		Build: func(seed uint64, tier string) *RunConfig {
			r := cfgRng(seed)
			mn, mx := tierOps(tier, 6, 18)
			ctl := sampleCtl(r)
			rc := &RunConfig{Property: "C02", Profile: "dyn-cert-faults", Seed: seed, Ctl: ctl, MapOrder: r.IntN(2) == 0, Lagfree: r.IntN(2) == 0, MidSched: r.IntN(2) == 0}
			rc.Faults = map[string]int{"sock.nonok_reply": pickInt(r, 150, 300, 500)}
			rc.MaxFaults = 1 + r.IntN(4)
			w := map[string]int{"secret_rotate": 30, "ep_scale": 4, "renotify": 2, "advance": 5}
			rc.World, rc.Ops = GenerateRun(seed, GenOptions{Sparse: r.IntN(2) == 0, IngressKeys: []string{"balance-algorithm", "ssl-redirect"}, MinOps: mn, MaxOps: mx, QuiesceEvery: pickInt(r, 3, 6),
				KeysPerRun: 2, W: w, NoForeignClass: true})
			return rc
		}})
	register(&Profile{Name: "dyn-bluegreen", Prop: "C02", Weight: 1,
		Oracles: OracleSet{Property: "C02", EffectiveStep: true, EffectiveAtSync: true},
		Build: func(seed uint64, tier string) *RunConfig {
			r := cfgRng(seed)
			mn, mx := tierOps(tier, 10, 30)
			rc := &RunConfig{Property: "C02", Profile: "dyn-bluegreen", Seed: seed, Ctl: sampleCtl(r), MapOrder: r.IntN(2) == 0, Lagfree: r.IntN(3) == 0}
			w := map[string]int{"ep_scale": 20, "ep_ready": 6, "ep_replace": 20, "pod_term": 3, "renotify": 2, "advance": 5}
			rc.World, rc.Ops = GenerateRun(seed, GenOptions{Sparse: r.IntN(3) == 0, IngressKeys: []string{"blue-green-header", "blue-green-cookie", "blue-green-deploy", "balance-algorithm"},
				AnnChance: 1, MinOps: mn, MaxOps: mx, QuiesceEvery: pickInt(r, 3, 6), KeysPerRun: 3, W: w, NoForeignClass: true, NoTLS: true,
				InitialGlobal: map[string]string{"slots-min-free": fmt.Sprint(pickInt(r, 1, 2, 4)), "dynamic-scaling": "true"}})
			return rc
		}})
	// preserved pod-uid cookies: a slot's cookie cannot be changed at run time
	register(&Profile{Name: "dyn-cookie", Prop: "C02", Weight: 1,
		Oracles: OracleSet{Property: "C02", EffectiveStep: true, EffectiveAtSync: true},
		Build: func(seed uint64, tier string) *RunConfig {
			r := cfgRng(seed)
			mn, mx := tierOps(tier, 10, 30)
			rc := &RunConfig{Property: "C02", Profile: "dyn-cookie", Seed: seed, Ctl: sampleCtl(r), MapOrder: r.IntN(2) == 0, Lagfree: r.IntN(3) == 0}
			w := map[string]int{"ep_scale": 25, "ep_ready": 6, "ep_replace": 14, "pod_term": 4, "renotify": 2, "advance": 5}
			rc.World, rc.Ops = GenerateRun(seed, GenOptions{Sparse: r.IntN(3) == 0, IngressKeys: []string{"affinity", "session-cookie-preserve", "session-cookie-value-strategy", "session-cookie-dynamic"},
				ValueOverrides: map[string][]string{"session-cookie-value-strategy": {"pod-uid"}, "session-cookie-dynamic": {"false"}}, AnnChance: 1, MinOps: mn, MaxOps: mx, QuiesceEvery: pickInt(r, 3, 6),
				KeysPerRun: 4, W: w, NoForeignClass: true, NoTLS: true,
				InitialGlobal: map[string]string{"slots-min-free": fmt.Sprint(pickInt(r, 1, 2, 4)), "dynamic-scaling": "true"}})
			return rc
		}})

	// ---------------- C12: a change is never lost to a transient failure
	allFaults := []string{"disk.write_fail", "disk.write_torn", "disk.enospc", "disk.crt_write_fail", "disk.read_fail", "sock.dial_refused", "sock.write_fail", "sock.read_timeout",
		"sock.reset_before_exec", "sock.reset_after_exec", "sock.nonok_reply", "sock.garbage_reply", "haproxy.reload_fail", "haproxy.reload_slow"}
	register(&Profile{Name: "faults", Prop: "C12", Weight: 1,
		Oracles: OracleSet{Property: "C12", Converge: true},
		Build: func(seed uint64, tier string) *RunConfig {
			r := cfgRng(seed)
			mn, mx := tierOps(tier, 4, 16)
			ctl := sampleCtl(r)
			ctl.ReloadRetryMs = pickInt(r, 2000, 5000)
			ctl.TrackOldInstances = r.IntN(4) == 0 // --track-old-instances: a connection to the outgoing process is taken before each reload
			rc := &RunConfig{Property: "C12", Profile: "faults", Seed: seed, Ctl: ctl, MapOrder: r.IntN(2) == 0, Lagfree: r.IntN(2) == 0, MidSched: r.IntN(2) == 0}
			rc.Faults = map[string]int{}
			n := 1 + r.IntN(3)
			pool := allFaults
			if _, avoid := avoidFlags(); avoid["no_disk_write_faults"] {
				pool = nil
				for _, f := range allFaults {
					if !strings.HasPrefix(f, "disk.write") && f != "disk.enospc" { // (disk.crt_write_fail stays)
						pool = append(pool, f)
					}
				}
			}
			if _, avoid := avoidFlags(); avoid["no_crt_write_faults"] {
				var keep []string
				for _, f := range pool {
					if f != "disk.crt_write_fail" {
						keep = append(keep, f)
					}
				}
				pool = keep
			}
			for i := 0; i < n; i++ {
				rc.Faults[pool[r.IntN(len(pool))]] = pickInt(r, 20, 50, 150, 400)
			}
			rc.MaxFaults = 1 + r.IntN(6)
			rc.Ctl.TCPConfigMap = r.IntN(5) == 0
			var initial map[string]string
			if r.IntN(3) == 0 {
				// the state of the servers is read from the outgoing process (show servers state) before each reload
				initial = map[string]string{"load-server-state": "true"}
			}
			rc.World, rc.Ops = GenerateRun(seed, GenOptions{Sparse: r.IntN(3) == 0, ExcludeIngressKeys: alwaysExcludedIngressKeys, MinOps: mn, MaxOps: mx, TCPConfigMap: rc.Ctl.TCPConfigMap,
				QuiesceEvery: 0, KeysPerRun: pickInt(r, 3, 7), InitialGlobal: initial})
			// faults stop, no further cluster change happens, then the convergence check
			last := rc.Ops[len(rc.Ops)-1]
			rc.Ops = append(rc.Ops[:len(rc.Ops)-1], Op{Type: "faults_off"}, last)
			return rc
		}})

	// ---------------- C03: requests reach exactly the designated ready endpoints
	register(&Profile{Name: "routing", Prop: "C03", Weight: 1,
		Oracles: OracleSet{Property: "C03", Routing: true},
		Build: func(seed uint64, tier string) *RunConfig {
			r := cfgRng(seed)
			mn, mx := tierOps(tier, 6, 22)
			ctl := sampleCtl(r)
			if _, avoid := avoidFlags(); avoid["dedicated_default_service"] && ctl.DefaultService != "" {
				ctl.DefaultService = "a/dflt"
			}
			rc := &RunConfig{Property: "C03", Profile: "routing", Seed: seed, Ctl: ctl, MapOrder: r.IntN(2) == 0, Lagfree: r.IntN(3) == 0, MidSched: r.IntN(2) == 0}
			w := map[string]int{}
			for k, v := range defaultWeights {
				w[k] = v
			}
			w["class_change"] = 0
			rc.World, rc.Ops = GenerateRun(seed, GenOptions{Sparse: r.IntN(3) == 0, IngressKeys: []string{"path-type", "balance-algorithm", "maxconn-server", "timeout-server"},
				ValueOverrides: map[string][]string{"path-type": {"begin", "prefix", "exact"}},
				GlobalKeys:     []string{"ssl-redirect", "drain-support", "timeout-client", "max-connections", "path-type-order"},
				Hosts:          []string{"app.local", "api.local", "web.local", ""}, MinOps: mn, MaxOps: mx, QuiesceEvery: pickInt(r, 2, 4), KeysPerRun: 3, W: w, NoForeignClass: true})
			return rc
		}})

	// histories in which a host/path is declared by two ingresses and the first-created one goes away: the
	// survivor takes the path over. no_dup_paths is replaced by its narrowed form (the services behind a
	// duplicated path are used by nothing else, so the recorded owner-change finding is not met). Seeded change C03-m9.
	register(&Profile{Name: "routing-dup-owner", Prop: "C03", Weight: 1,
		Oracles: OracleSet{Property: "C03", Routing: true},
		Build: func(seed uint64, tier string) *RunConfig {
			r := cfgRng(seed)
			mn, mx := tierOps(tier, 6, 18)
			ctl := sampleCtl(r)
			if _, avoid := avoidFlags(); avoid["dedicated_default_service"] && ctl.DefaultService != "" {
				ctl.DefaultService = "a/dflt"
			}
			rc := &RunConfig{Property: "C03", Profile: "routing-dup-owner", Seed: seed, Ctl: ctl, MapOrder: r.IntN(2) == 0, Lagfree: r.IntN(3) == 0, MidSched: r.IntN(2) == 0,
				IgnoreAvoid: []string{"no_dup_paths"}, ExtraAvoid: []string{"dup_paths_exclusive_service"}}
			w := map[string]int{}
			for k, v := range defaultWeights {
				w[k] = v
			}
			w["class_change"] = 0
			w["ing_create"], w["ing_delete"], w["ing_update"] = 14, 12, 8
			rc.World, rc.Ops = GenerateRun(seed, GenOptions{Sparse: true, IngressKeys: []string{"balance-algorithm", "timeout-server"},
				GlobalKeys: []string{"ssl-redirect", "drain-support", "timeout-client"},
				Hosts:      []string{"app.local", "api.local"}, Paths: []string{"/app", "/app", "/"}, MinOps: mn, MaxOps: mx, QuiesceEvery: pickInt(r, 2, 4), KeysPerRun: 2, W: w, NoForeignClass: true,
				NoOwnHost: true, NoTLS: r.IntN(4) != 0, NoDefaultBackend: true,
				IgnoreAvoid: []string{"no_dup_paths"}, ExtraAvoid: []string{"dup_paths_exclusive_service"}, MaxIngresses: 6})
			return rc
		}})

	// the same histories under the differential oracle of C01: whatever an owner change of a twice-declared path
	// leaves behind must equal what a fresh controller builds
	register(&Profile{Name: "churn-dup-owner", Prop: "C01", Weight: 1,
		Oracles: OracleSet{Property: "C01", FreshAtSync: true, EffectiveAtSync: true},
		Build: func(seed uint64, tier string) *RunConfig {
			r := cfgRng(seed)
			mn, mx := tierOps(tier, 6, 18)
			ctl := sampleCtl(r)
			if ctl.DefaultService != "" {
				// part of the narrowed constraint: the backend of --default-backend-service exists from the start,
				// so it must not be a service behind a twice-declared path
				ctl.DefaultService = "a/dflt"
			}
			rc := &RunConfig{Property: "C01", Profile: "churn-dup-owner", Seed: seed, Ctl: ctl, MapOrder: r.IntN(2) == 0, Lagfree: r.IntN(3) == 0, MidSched: r.IntN(2) == 0,
				IgnoreAvoid: []string{"no_dup_paths"}, ExtraAvoid: []string{"dup_paths_exclusive_service"}}
			w := map[string]int{}
			for k, v := range defaultWeights {
				w[k] = v
			}
			w["class_change"] = 0
			w["ing_create"], w["ing_delete"], w["ing_update"] = 14, 12, 8
			rc.World, rc.Ops = GenerateRun(seed, GenOptions{Sparse: true, IngressKeys: []string{"balance-algorithm", "timeout-server", "ssl-redirect", "hsts"},
				GlobalKeys: []string{"ssl-redirect", "drain-support", "timeout-client"},
				Hosts:      []string{"app.local", "api.local"}, Paths: []string{"/app", "/app", "/"}, MinOps: mn, MaxOps: mx, QuiesceEvery: pickInt(r, 2, 4), KeysPerRun: 3, W: w, NoForeignClass: true,
				NoOwnHost: true, NoTLS: r.IntN(4) != 0, NoDefaultBackend: true,
				IgnoreAvoid: []string{"no_dup_paths"}, ExtraAvoid: []string{"dup_paths_exclusive_service"}, MaxIngresses: 6})
			return rc
		}})

	// and under the per-update file oracle of C05, with backend shards
	register(&Profile{Name: "shards-dup-owner", Prop: "C05", Weight: 1,
		Oracles: OracleSet{Property: "C05", FreshEveryRec: true},
		Build: func(seed uint64, tier string) *RunConfig {
			r := cfgRng(seed)
			mn, mx := tierOps(tier, 6, 18)
			ctl := sampleCtl(r)
			ctl.BackendShards = pickInt(r, 0, 1, 3, 8, 8)
			if ctl.DefaultService != "" {
				ctl.DefaultService = "a/dflt"
			}
			rc := &RunConfig{Property: "C05", Profile: "shards-dup-owner", Seed: seed, Ctl: ctl, MapOrder: r.IntN(2) == 0, Lagfree: true,
				IgnoreAvoid: []string{"no_dup_paths"}, ExtraAvoid: []string{"dup_paths_exclusive_service"}}
			w := map[string]int{}
			for k, v := range defaultWeights {
				w[k] = v
			}
			w["class_change"] = 0
			w["ing_create"], w["ing_delete"], w["ing_update"] = 14, 12, 8
			rc.World, rc.Ops = GenerateRun(seed, GenOptions{Sparse: true, IngressKeys: []string{"balance-algorithm", "timeout-server", "ssl-redirect", "hsts"},
				GlobalKeys: []string{"ssl-redirect", "drain-support", "timeout-client"},
				Hosts:      []string{"app.local", "api.local"}, Paths: []string{"/app", "/app", "/"}, MinOps: mn, MaxOps: mx, QuiesceEvery: pickInt(r, 2, 4), KeysPerRun: 3, W: w, NoForeignClass: true,
				NoOwnHost: true, NoTLS: r.IntN(4) != 0, NoDefaultBackend: true,
				IgnoreAvoid: []string{"no_dup_paths"}, ExtraAvoid: []string{"dup_paths_exclusive_service"}, MaxIngresses: 6})
			return rc
		}})

	// static variant: no history, so duplicated declarations (creation-time conflict
	// resolution) can be generated without reaching the recorded owner-change finding
	register(&Profile{Name: "routing-static", Prop: "C03", Weight: 1,
		Oracles: OracleSet{Property: "C03", Routing: true},
		Build: func(seed uint64, tier string) *RunConfig {
			r := cfgRng(seed)
			ctl := sampleCtl(r)
			if _, avoid := avoidFlags(); avoid["dedicated_default_service"] && ctl.DefaultService != "" {
				ctl.DefaultService = "a/dflt"
			}
			rc := &RunConfig{Property: "C03", Profile: "routing-static", Seed: seed, Ctl: ctl, MapOrder: r.IntN(2) == 0, Lagfree: r.IntN(2) == 0, IgnoreAvoid: []string{"no_dup_paths"}}
			rc.World, rc.Ops = GenerateRun(seed, GenOptions{IngressKeys: []string{"path-type", "balance-algorithm"}, ValueOverrides: map[string][]string{"path-type": {"begin", "prefix", "exact"}},
				GlobalKeys: []string{"ssl-redirect", "drain-support", "path-type-order"}, Hosts: []string{"app.local", "api.local", ""},
				Paths: []string{"/", "/app", "/app/", "/app/sub", "/App"}, NoOps: true, KeysPerRun: 2, NoForeignClass: true,
				IgnoreAvoid: []string{"no_dup_paths"}, MaxIngresses: 5})
			return rc
		}})

	// ---------------- C08: only ingresses classified for this controller are configured
	register(&Profile{Name: "class", Prop: "C08", Weight: 1,
		Oracles: OracleSet{Property: "C08", ClassSelect: true},
		Build: func(seed uint64, tier string) *RunConfig {
			r := cfgRng(seed)
			mn, mx := tierOps(tier, 6, 22)
			ctl := sampleCtl(r)
			ctl.DefaultService = ""
			rc := &RunConfig{Property: "C08", Profile: "class", Seed: seed, Ctl: ctl, MapOrder: r.IntN(2) == 0, Lagfree: r.IntN(3) == 0, MidSched: r.IntN(2) == 0}
			w := map[string]int{"ing_create": 8, "ing_delete": 4, "ing_update": 20, "ing_ann": 4, "class_change": 14, "renotify": 3, "advance": 5, "ep_scale": 3, "global_change": 1}
			rc.World, rc.Ops = GenerateRun(seed, GenOptions{Sparse: true, OwnHostAlways: true, IngressKeys: []string{"balance-algorithm", "timeout-server", "ssl-redirect"},
				GlobalKeys: []string{"timeout-client", "max-connections"}, MinOps: mn, MaxOps: mx, QuiesceEvery: pickInt(r, 2, 4), KeysPerRun: 2, W: w})
			return rc
		}})

	// ---------------- C15: each TLS host is served with the certificate its ingress declares
	register(&Profile{Name: "tls", Prop: "C15", Weight: 1,
		Oracles: OracleSet{Property: "C15", TLSCerts: true},
		Build: func(seed uint64, tier string) *RunConfig {
			r := cfgRng(seed)
			mn, mx := tierOps(tier, 6, 22)
			ctl := sampleCtl(r)
			rc := &RunConfig{Property: "C15", Profile: "tls", Seed: seed, Ctl: ctl, MapOrder: r.IntN(2) == 0, Lagfree: r.IntN(3) == 0, MidSched: r.IntN(2) == 0}
			w := map[string]int{"ing_create": 8, "ing_delete": 5, "ing_update": 16, "secret_rotate": 14, "secret_delete": 6, "secret_create": 8, "secret_break": 3,
				"class_change": 2, "renotify": 3, "advance": 5, "global_change": 2, "ep_scale": 2}
			rc.World, rc.Ops = GenerateRun(seed, GenOptions{Sparse: r.IntN(2) == 0, IngressKeys: []string{"balance-algorithm", "timeout-server", "hsts"},
				GlobalKeys: []string{"timeout-client", "cross-namespace-secrets-crt"}, MinOps: mn, MaxOps: mx, QuiesceEvery: pickInt(r, 2, 4), KeysPerRun: 2, W: w, NoForeignClass: r.IntN(2) == 0})
			return rc
		}})

	// ---------------- C18: external authentication fails closed
	register(&Profile{Name: "auth", Prop: "C18", Weight: 1,
		Oracles: OracleSet{Property: "C18", ExtAuth: true},
		Build: func(seed uint64, tier string) *RunConfig {
			r := cfgRng(seed)
			mn, mx := tierOps(tier, 6, 22)
			ctl := sampleCtl(r)
			rc := &RunConfig{Property: "C18", Profile: "auth", Seed: seed, Ctl: ctl, MapOrder: r.IntN(2) == 0, Lagfree: r.IntN(3) == 0, MidSched: r.IntN(2) == 0}
			w := map[string]int{"ing_create": 8, "ing_delete": 6, "ing_update": 12, "ing_ann": 18, "global_change": 4, "svc_delete": 2, "svc_create": 3, "ep_scale": 4, "renotify": 2, "advance": 4}
			initial := map[string]string{"external-has-lua": []string{"true", "true", "true", "false"}[r.IntN(4)]}
			if r.IntN(4) != 0 {
				initial["auth-proxy"] = []string{"_front__auth:14415-14415", "_front__auth:14415-14416", "_front__auth:14415-14419"}[r.IntN(3)]
			}
			rc.World, rc.Ops = GenerateRun(seed, GenOptions{Sparse: r.IntN(2) == 0, IngressKeys: []string{"auth-url", "oauth", "auth-external-placement", "balance-algorithm", "server-alias"},
				ValueOverrides: map[string][]string{"auth-external-placement": {"frontend", "backend", "backend", "Backend", "front", ""}},
				GlobalKeys:     []string{"auth-proxy", "external-has-lua", "timeout-client"}, InitialGlobal: initial, AnnChance: 2,
				Hosts: []string{"app.local", "api.local", "web.local"}, MinOps: mn, MaxOps: mx, QuiesceEvery: pickInt(r, 2, 4), KeysPerRun: 4, W: w, NoForeignClass: true})
			return rc
		}})

	// oauth with a published oauth2 proxy: the proxy moves between services, is removed and comes back
	register(&Profile{Name: "auth-oauth", Prop: "C18", Weight: 1,
		Oracles: OracleSet{Property: "C18", ExtAuth: true},
		Build: func(seed uint64, tier string) *RunConfig {
			r := cfgRng(seed)
			mn, mx := tierOps(tier, 6, 20)
			ctl := sampleCtl(r)
			rc := &RunConfig{Property: "C18", Profile: "auth-oauth", Seed: seed, Ctl: ctl, MapOrder: r.IntN(2) == 0, Lagfree: r.IntN(3) == 0, MidSched: r.IntN(2) == 0}
			w := map[string]int{"ing_create": 8, "ing_delete": 6, "ing_update": 14, "ing_ann": 8, "svc_delete": 1, "svc_create": 2, "ep_scale": 4, "renotify": 2, "advance": 4}
			rc.World, rc.Ops = GenerateRun(seed, GenOptions{Sparse: r.IntN(2) == 0, IngressKeys: []string{"oauth", "balance-algorithm", "oauth-uri-prefix"}, ForceIngressKeys: []string{"oauth"},
				InitialGlobal: map[string]string{"external-has-lua": "true"}, AnnChance: 2, OwnHostAlways: true,
				Paths: []string{"/", "/app", "/oauth2", "/oauth2", "/api"}, MinOps: mn, MaxOps: mx, QuiesceEvery: pickInt(r, 2, 4), KeysPerRun: 2, W: w, NoForeignClass: true})
			return rc
		}})

	// ---------------- C06: same cluster state, same behaviour, whatever the processing order
	register(&Profile{Name: "order", Prop: "C06", Weight: 2,
		Oracles: OracleSet{Property: "C06", OrderIndep: true, FreshAtSync: true},
		Build: func(seed uint64, tier string) *RunConfig {
			r := cfgRng(seed)
			ctl := sampleCtl(r)
			// (a static world: the constraints whose recorded trigger needs an update of an existing object are lifted)
			lift := []string{"no_dup_paths", "no_new_default_backend", "ingress_hosts_fixed", "unique_host_claims"}
			ctl.TCPConfigMap = r.IntN(4) == 0
			rc := &RunConfig{Property: "C06", Profile: "order", Seed: seed, Ctl: ctl, MapOrder: true, Lagfree: true, IgnoreAvoid: lift}
			// dense worlds: few hosts and paths, many ingresses, so that declarations collide
			rc.World, rc.Ops = GenerateRun(seed, GenOptions{Sparse: r.IntN(4) == 0, NoOps: true, MaxIngresses: pickInt(r, 5, 7, 9), KeysPerRun: pickInt(r, 4, 7, 10), TCPConfigMap: ctl.TCPConfigMap,
				AnnChance: 2, ExcludeIngressKeys: []string{"waf", "cert-signer"}, NoForeignClass: r.IntN(2) == 0, IgnoreAvoid: lift})
			return rc
		}})
	// static worlds where several hosts of a namespace declare the oauth2 proxy path: the proxy backend is
	// looked up by ranging over the hosts
	register(&Profile{Name: "order-oauth", Prop: "C06", Weight: 1,
		Oracles: OracleSet{Property: "C06", OrderIndep: true, FreshAtSync: true},
		Build: func(seed uint64, tier string) *RunConfig {
			r := cfgRng(seed)
			ctl := sampleCtl(r)
			lift := []string{"no_dup_paths", "no_new_default_backend", "ingress_hosts_fixed", "no_external_auth", "unique_host_claims"}
			rc := &RunConfig{Property: "C06", Profile: "order-oauth", Seed: seed, Ctl: ctl, MapOrder: true, Lagfree: true, IgnoreAvoid: lift}
			rc.World, rc.Ops = GenerateRun(seed, GenOptions{Sparse: r.IntN(4) == 0, NoOps: true, MaxIngresses: pickInt(r, 4, 6, 8), KeysPerRun: pickInt(r, 2, 4),
				AnnChance: 2, ExcludeIngressKeys: []string{"waf", "cert-signer"}, ForceIngressKeys: []string{"oauth", "auth-url"}, NoForeignClass: true, IgnoreAvoid: lift,
				// (one authentication host reached with and without TLS: the shared auth backend must not depend on who came first)
				ValueOverrides: map[string][]string{"auth-url": {"http://10.9.9.9:8000/auth", "https://10.9.9.9:8000/auth", "http://10.9.9.8:8000/x"}},
				InitialGlobal:  map[string]string{"external-has-lua": "true", "auth-proxy": "_front__auth:14415-14419"},
				Paths:          []string{"/", "/app", "/oauth2", "/oauth2", "/api"}})
			return rc
		}})
	// the same after a short lag-free history: objects that were updated, deleted and re-created
	register(&Profile{Name: "order-history", Prop: "C06", Weight: 1,
		Oracles: OracleSet{Property: "C06", OrderIndep: true},
		Build: func(seed uint64, tier string) *RunConfig {
			r := cfgRng(seed)
			mn, mx := tierOps(tier, 4, 14)
			ctl := sampleCtl(r)
			rc := &RunConfig{Property: "C06", Profile: "order-history", Seed: seed, Ctl: ctl, MapOrder: true, Lagfree: true}
			rc.World, rc.Ops = GenerateRun(seed, GenOptions{Sparse: r.IntN(3) == 0, MinOps: mn, MaxOps: mx, QuiesceEvery: 4, KeysPerRun: pickInt(r, 4, 7),
				ExcludeIngressKeys: []string{"waf", "cert-signer"}})
			return rc
		}})

	// ---------------- C09: cross-namespace isolation
	register(&Profile{Name: "xns", Prop: "C09", Weight: 1,
		Oracles: OracleSet{Property: "C09", CrossNS: true},
		Build: func(seed uint64, tier string) *RunConfig {
			r := cfgRng(seed)
			mn, mx := tierOps(tier, 4, 18)
			ctl := sampleCtl(r)
			ctl.AllowCrossNamespace = r.IntN(8) == 0
			if r.IntN(3) == 0 {
				ctl.DefaultService = []string{"a/s1", "b/s1", "a/s2"}[r.IntN(3)] // its annotations are read with no ingress behind them
			}
			rc := &RunConfig{Property: "C09", Profile: "xns", Seed: seed, Ctl: ctl, MapOrder: r.IntN(2) == 0, Lagfree: r.IntN(2) == 0, MidSched: r.IntN(3) == 0}
			w := map[string]int{"ing_create": 6, "ing_delete": 3, "ing_update": 8, "ing_ann": 14, "global_change": 12, "secret_rotate": 4, "secret_delete": 3, "secret_create": 4,
				"svc_update": 2, "ep_scale": 2, "renotify": 2, "advance": 3}
			initial := map[string]string{}
			for _, k := range []string{"cross-namespace-secrets-crt", "cross-namespace-secrets-ca", "cross-namespace-secrets-passwd", "cross-namespace-services"} {
				switch r.IntN(4) {
				case 0:
					initial[k] = "allow"
				case 1:
					initial[k] = "deny"
				case 2:
					initial[k] = []string{"Allow", "yes", "true", "", "Deny", "DENY"}[r.IntN(6)] // (case variants; invalid values mean deny)
				}
			}
			initial["external-has-lua"] = "true"
			refs := map[string][]string{
				"secure-crt-secret":       {"b/tls1", "a/tls2", "tls2", "secret://b/tls1", "a/tls1", "b/missing"},
				"secure-verify-ca-secret": {"b/ca", "a/ca", "ca", "secret://a/ca", "b/tls1"},
				"auth-tls-secret":         {"b/ca", "a/ca", "ca", "secret://b/ca", "a/tls1"},
				"auth-secret":             {"b/auth", "a/auth", "auth", "secret://a/auth"},
				"auth-url":                {"svc://a/s2:8080", "svc://b/s3:8081", "svc://b/s1:8080/check", "svc://a/s1:8080", "svc://s2:8080", "svc://b/s3:80", "http://10.9.9.9:8000/auth"},
				"auth-tls-verify-client":  {"optional", "on"},
				"secure-backends":         {"true"},
			}
			rc.World, rc.Ops = GenerateRun(seed, GenOptions{Sparse: r.IntN(2) == 0,
				IngressKeys: []string{"secure-crt-secret", "secure-verify-ca-secret", "auth-tls-secret", "auth-secret", "auth-url", "auth-tls-verify-client", "secure-backends", "balance-algorithm"},
				ServiceKeys: []string{"balance-algorithm", "secure-backends", "secure-crt-secret", "secure-verify-ca-secret", "auth-secret"}, ValueOverrides: refs, AnnChance: 2,
				GlobalKeys:    []string{"cross-namespace-secrets-crt", "cross-namespace-secrets-ca", "cross-namespace-secrets-passwd", "cross-namespace-services", "timeout-client"},
				InitialGlobal: initial, TLSSecrets: []string{"tls1", "b/tls1", "a/tls1", "a/tls2", "secret://b/tls1", "b/missing", ""},
				Hosts: []string{"app.local", "api.local", "web.local", "h4.local"}, MinOps: mn, MaxOps: mx, QuiesceEvery: pickInt(r, 2, 4), KeysPerRun: 8, W: w, NoForeignClass: true})
			return rc
		}})

	// service-backed authentication: same-named services in two namespaces, shared auth proxy
	register(&Profile{Name: "auth-svc", Prop: "C18", Weight: 1,
		Oracles: OracleSet{Property: "C18", ExtAuth: true},
		Build: func(seed uint64, tier string) *RunConfig {
			r := cfgRng(seed)
			mn, mx := tierOps(tier, 4, 16)
			ctl := sampleCtl(r)
			rc := &RunConfig{Property: "C18", Profile: "auth-svc", Seed: seed, Ctl: ctl, MapOrder: r.IntN(2) == 0, Lagfree: r.IntN(3) == 0, MidSched: r.IntN(2) == 0}
			w := map[string]int{"ing_create": 8, "ing_delete": 5, "ing_update": 8, "ing_ann": 14, "global_change": 2, "ep_scale": 6, "svc_delete": 1, "svc_create": 2, "renotify": 2, "advance": 3}
			initial := map[string]string{"external-has-lua": "true", "auth-proxy": []string{"_front__auth:14415-14419", "_front__auth:14415-14416", "_front__auth:14415-14417"}[r.IntN(3)]}
			if r.IntN(3) == 0 {
				initial["cross-namespace-services"] = "allow"
			}
			rc.World, rc.Ops = GenerateRun(seed, GenOptions{IngressKeys: []string{"auth-url", "auth-external-placement", "balance-algorithm"},
				ValueOverrides: map[string][]string{"auth-url": {"svc://s1:8080", "svc://s1:8080/check", "svc://a/s2:8080", "svc://s2:8080", "svc://b/s3:8081", "svc://s1:80", "http://10.9.9.9:8000/auth"}, "auth-external-placement": {"backend", "backend", "frontend"}},
				GlobalKeys:     []string{"auth-proxy", "timeout-client"}, InitialGlobal: initial, AnnChance: 1, OwnHostAlways: true, Sparse: true,
				MinOps: mn, MaxOps: mx, QuiesceEvery: pickInt(r, 2, 4), KeysPerRun: 3, W: w, NoForeignClass: true})
			return rc
		}})

	// the declaration sits on the Service: every path that routes to it is protected
	register(&Profile{Name: "auth-svcann", Prop: "C18", Weight: 1,
		Oracles: OracleSet{Property: "C18", ExtAuth: true},
		Build: func(seed uint64, tier string) *RunConfig {
			r := cfgRng(seed)
			mn, mx := tierOps(tier, 4, 14)
			ctl := sampleCtl(r)
			rc := &RunConfig{Property: "C18", Profile: "auth-svcann", Seed: seed, Ctl: ctl, MapOrder: r.IntN(2) == 0, Lagfree: r.IntN(3) == 0, MidSched: r.IntN(2) == 0}
			w := map[string]int{"ing_create": 8, "ing_delete": 4, "ing_update": 8, "ing_ann": 8, "svc_update": 10, "global_change": 2, "ep_scale": 4, "renotify": 2, "advance": 3}
			initial := map[string]string{"external-has-lua": "true", "auth-proxy": []string{"_front__auth:14415-14419", "_front__auth:14415-14416"}[r.IntN(2)]}
			rc.World, rc.Ops = GenerateRun(seed, GenOptions{IngressKeys: []string{"auth-external-placement", "balance-algorithm", "auth-url"},
				ValueOverrides: map[string][]string{"auth-external-placement": {"backend", "frontend"}, "auth-url": {"svc://s2:8080"}},
				ServiceKeys:    []string{"auth-url", "auth-external-placement"}, SvcAnnChance: 2,
				GlobalKeys: []string{"auth-proxy", "timeout-client"}, InitialGlobal: initial, AnnChance: 2, OwnHostAlways: true, Sparse: true,
				MinOps: mn, MaxOps: mx, QuiesceEvery: pickInt(r, 2, 4), KeysPerRun: 3, W: w, NoForeignClass: true})
			return rc
		}})

	// every ingress on hosts of its own, every key closed: what namespace X gets is a function of X alone
	register(&Profile{Name: "xns-projection", Prop: "C09", Weight: 1,
		Oracles: OracleSet{Property: "C09", NSProjection: true, CrossNS: true},
		Build: func(seed uint64, tier string) *RunConfig {
			r := cfgRng(seed)
			mn, mx := tierOps(tier, 4, 14)
			ctl := sampleCtl(r)
			ctl.AllowCrossNamespace, ctl.DefaultService = false, ""
			rc := &RunConfig{Property: "C09", Profile: "xns-projection", Seed: seed, Ctl: ctl, MapOrder: r.IntN(2) == 0, Lagfree: r.IntN(2) == 0}
			w := map[string]int{"ing_create": 8, "ing_delete": 4, "ing_update": 8, "ing_ann": 14, "svc_update": 2, "ep_scale": 3, "secret_rotate": 2, "renotify": 2, "advance": 3}
			refs := map[string][]string{
				"oauth":                   {"oauth2_proxy"},
				"auth-url":                {"svc://s1:8080", "svc://b/s1:8080", "svc://a/s2:8080", "http://10.9.9.9:8000/auth"},
				"secure-crt-secret":       {"tls1", "b/tls1", "a/tls2"},
				"secure-verify-ca-secret": {"ca", "b/ca", "a/ca"},
				"auth-secret":             {"auth", "b/auth", "a/auth"},
				"secure-backends":         {"true"},
			}
			rc.World, rc.Ops = GenerateRun(seed, GenOptions{Sparse: true, OwnHostAlways: true, NoDefaultBackend: true,
				IngressKeys: []string{"oauth", "auth-url", "secure-crt-secret", "secure-verify-ca-secret", "auth-secret", "secure-backends", "balance-algorithm"},
				ServiceKeys: []string{"balance-algorithm", "timeout-server"}, ValueOverrides: refs, AnnChance: 2,
				GlobalKeys: []string{"timeout-client"}, InitialGlobal: map[string]string{"external-has-lua": "true", "auth-proxy": "_front__auth:14415-14430"},
				Paths: []string{"/", "/app", "/oauth2", "/oauth2", "/api"}, TLSSecrets: []string{"tls1", "b/tls1", "a/tls1", ""},
				MinOps: mn, MaxOps: mx, QuiesceEvery: pickInt(r, 2, 4), KeysPerRun: 7, W: w, NoForeignClass: true})
			return rc
		}})

	// ---------------- C07: every generated configuration is loadable
	register(&Profile{Name: "stress", Prop: "C07",
		Oracles: OracleSet{Property: "C07", Loadable: true},
		Build: func(seed uint64, tier string) *RunConfig {
			r := cfgRng(seed)
			mn, mx := tierOps(tier, 8, 28)
			rc := &RunConfig{Property: "C07", Profile: "stress", Seed: seed, Ctl: sampleCtl(r), MapOrder: r.IntN(2) == 0,
				Lagfree: r.IntN(3) == 0, MidSched: r.IntN(2) == 0}
			rc.Ctl.TCPConfigMap = r.IntN(5) == 0
			w := map[string]int{"pod_vanish": 4}
			for k, v := range defaultWeights {
				w[k] = v
			}
			var force []string
			if r.IntN(3) == 0 {
				force = []string{"assign-backend-server-id"}
			}
			rc.World, rc.Ops = GenerateRun(seed, GenOptions{Sparse: r.IntN(3) == 0, ExcludeIngressKeys: []string{"waf", "cert-signer"}, MinOps: mn, MaxOps: mx, TCPConfigMap: rc.Ctl.TCPConfigMap,
				QuiesceEvery: pickInt(r, 3, 6), KeysPerRun: pickInt(r, 5, 9, 14), W: w, ForceIngressKeys: force})
			return rc
		}})
	// static worlds: what only a history can break is lifted (strict-host among them)
	register(&Profile{Name: "stress-static", Prop: "C07", Weight: 1,
		Oracles: OracleSet{Property: "C07", Loadable: true},
		Build: func(seed uint64, tier string) *RunConfig {
			r := cfgRng(seed)
			ctl := sampleCtl(r)
			if r.IntN(2) == 0 {
				ctl.DefaultService = "a/s1"
			}
			lift := []string{"no_dup_paths", "no_new_default_backend", "ingress_hosts_fixed", "unique_host_claims", "no_strict_host"}
			rc := &RunConfig{Property: "C07", Profile: "stress-static", Seed: seed, Ctl: ctl, MapOrder: r.IntN(2) == 0, Lagfree: true, IgnoreAvoid: lift}
			rc.World, rc.Ops = GenerateRun(seed, GenOptions{Sparse: r.IntN(2) == 0, NoOps: true, MaxIngresses: pickInt(r, 4, 6, 9), KeysPerRun: pickInt(r, 5, 9, 14), AnnChance: 2,
				ExcludeIngressKeys: []string{"waf", "cert-signer"}, IgnoreAvoid: lift, ForceIngressKeys: []string{"redirect-to"},
				InitialGlobal: map[string]string{"strict-host": []string{"true", "true", "false"}[r.IntN(3)]}})
			return rc
		}})
}
