package hapsim

// C09 — cross-namespace isolation. While a cross-namespace key is `deny` and
// --allow-cross-namespace is off, a reference from namespace A to a resource of
// namespace B must have no influence: the configuration equals the one produced
// if the foreign object did not exist. Two-world oracle on the same stores:
//   F = a fresh pipeline on the stores as they are;
//   T = a fresh pipeline on the stores where every DENIED cross-namespace
//       reference is rewritten to a name that does not exist in that namespace.
// NF(F) must equal NF(T), and both must issue the same reads of secrets and
// services (the denied object is not even read). A permission that opens more
// than its own resource kind makes F use an object that T cannot see.
// The long-running controller (which lived through allow/deny flips) is
// compared with T as well.

import (
	"fmt"
	"sort"
	"strings"

	api "k8s.io/api/core/v1"
	networking "k8s.io/api/networking/v1"
	"sigs.k8s.io/controller-runtime/pkg/client"
)

// usage class of every key that takes a resource name
var c09KeyClass = map[string]string{
	"auth-tls-secret":         "ca",
	"secure-verify-ca-secret": "ca",
	"secure-crt-secret":       "crt",
	"auth-secret":             "passwd",
	"auth-url":                "services",
}

var c09GlobalKey = map[string]string{
	"crt":      "cross-namespace-secrets-crt",
	"ca":       "cross-namespace-secrets-ca",
	"passwd":   "cross-namespace-secrets-passwd",
	"services": "cross-namespace-services",
}

const c09Absent = "zz-absent"

// c09Denied: the documented rule, not the implementation's bits: a class is
// closed unless its key says exactly `allow`; the oracle is silent about
// everything when the command-line override is on.
func (r *Run) c09Denied(class string) bool {
	if r.Cfg.Ctl.AllowCrossNamespace {
		return false
	}
	// (the value is read case-insensitively; anything else than allow is deny)
	return strings.ToLower(r.globalString(c09GlobalKey[class])) != "allow"
}

// rewriteRef returns the reference with a foreign object name replaced by an
// absent one when it crosses namespaces (ownNS) — or "" when nothing changes.
func rewriteRef(class, ownNS, val string) string {
	prefix := ""
	body := val
	if class == "services" {
		for _, p := range []string{"svc://", "service://"} {
			if strings.HasPrefix(val, p) {
				prefix, body = p, strings.TrimPrefix(val, p)
			}
		}
		if prefix == "" {
			return ""
		}
		hostport, rest, hasRest := strings.Cut(body, "/")
		// svc://ns/name:port[/path]
		if !hasRest {
			return ""
		}
		nameport, path, hasPath := strings.Cut(rest, "/")
		if !strings.Contains(nameport, ":") {
			return "" // svc://name:port/path form: hostport holds name:port, no namespace
		}
		ns := hostport
		if ns == ownNS || ns == "" {
			return ""
		}
		_, port, _ := strings.Cut(nameport, ":")
		out := prefix + ns + "/" + c09Absent + ":" + port
		if hasPath {
			out += "/" + path
		}
		return out
	}
	if strings.HasPrefix(val, "secret://") {
		prefix, body = "secret://", strings.TrimPrefix(val, "secret://")
	} else if strings.Contains(val, "://") {
		return "" // file:// and unknown protocols name no namespaced object
	}
	ns, _, ok := strings.Cut(body, "/")
	if !ok || ns == "" || ns == ownNS {
		return ""
	}
	return prefix + ns + "/" + c09Absent
}

// c09Rewrite returns transformed copies of the ingresses and services whose
// denied cross-namespace references were rewritten, and how many were.
func (r *Run) c09Rewrite() (map[string]map[string]client.Object, int) {
	out := map[string]map[string]client.Object{KIngress: {}, KService: {}}
	n := 0
	rewriteAnn := func(ns string, ann map[string]string) bool {
		changed := false
		for k, v := range ann {
			key := strings.TrimPrefix(k, annPrefix)
			class, ok := c09KeyClass[key]
			if !ok || !strings.HasPrefix(k, annPrefix) || !r.c09Denied(class) {
				continue
			}
			if nv := rewriteRef(class, ns, v); nv != "" {
				ann[k] = nv
				changed = true
				n++
			}
		}
		return changed
	}
	for key, o := range r.kube.ks(KIngress).store {
		ing := o.DeepCopyObject().(*networking.Ingress)
		changed := rewriteAnn(ing.Namespace, ing.Annotations)
		if r.c09Denied("crt") {
			for i := range ing.Spec.TLS {
				if nv := rewriteRef("crt", ing.Namespace, ing.Spec.TLS[i].SecretName); nv != "" {
					ing.Spec.TLS[i].SecretName = nv
					changed = true
					n++
				}
			}
		}
		if changed {
			out[KIngress][key] = ing
		}
	}
	for key, o := range r.kube.ks(KService).store {
		svc := o.DeepCopyObject().(*api.Service)
		if rewriteAnn(svc.Namespace, svc.Annotations) {
			out[KService][key] = svc
		}
	}
	return out, n
}

func (r *Run) freshWithReads(swap map[string]map[string]client.Object) (NF, []string) {
	saved := map[string]map[string]client.Object{}
	for kind, objs := range swap {
		saved[kind] = map[string]client.Object{}
		st := r.kube.ks(kind).store
		for key, o := range objs {
			saved[kind][key] = st[key]
			if o == nil {
				delete(st, key) // hidden in this world
			} else {
				st[key] = o
			}
		}
	}
	r.kube.readTrace = []string{}
	nf := r.freshNF(false)
	reads := r.kube.readTrace
	r.kube.readTrace = nil
	for kind, objs := range saved {
		st := r.kube.ks(kind).store
		for key, o := range objs {
			if o == nil {
				delete(st, key)
			} else {
				st[key] = o
			}
		}
	}
	set := map[string]bool{}
	for _, rd := range reads {
		if strings.HasPrefix(rd, "get/Secret/") || strings.HasPrefix(rd, "get/Service/") || strings.HasPrefix(rd, "get/Endpoints/") {
			if !strings.HasSuffix(rd, "/"+c09Absent) {
				set[rd] = true
			}
		}
	}
	return nf, sortedKeys(set)
}

func (r *Run) checkCrossNamespace() {
	disk := r.diskConfig()
	if disk == nil {
		return
	}
	swap, n := r.c09Rewrite()
	r.probe("model_compared")
	if n == 0 {
		return // nothing is denied in this state: the property says nothing
	}
	r.probe("c09_denied_refs_states")
	for _, class := range []string{"crt", "ca", "passwd", "services"} {
		if !r.c09Denied(class) {
			r.probe("c09_some_class_open")
			break
		}
	}
	nfF, readsF := r.freshWithReads(nil)
	nfT, readsT := r.freshWithReads(swap)
	if nfF == nil || nfT == nil {
		panic(harnessError("C09: fresh pipeline wrote no configuration"))
	}
	if d := DiffNF(nfF, nfT, "with-foreign-objects", "foreign-objects-absent"); d != "" {
		r.violate(&Violation{Property: "C09", Oracle: "two-worlds", Class: "foreign-object-influences-config:" + diffClass2(d),
			Witness: fmt.Sprintf("%d denied cross-namespace reference(s); %s", n, d)})
		return
	}
	if strings.Join(readsF, ",") != strings.Join(readsT, ",") {
		var extra []string
		inT := map[string]bool{}
		for _, x := range readsT {
			inT[x] = true
		}
		for _, x := range readsF {
			if !inT[x] {
				extra = append(extra, x)
			}
		}
		sort.Strings(extra)
		if len(extra) > 0 {
			r.violate(&Violation{Property: "C09", Oracle: "two-worlds-reads", Class: "foreign-object-read",
				Witness: fmt.Sprintf("objects read only because of a denied cross-namespace reference: %v", extra)})
			return
		}
	}
	// The long-running controller, which lived through allow -> deny flips and holds caches
	// (userlists, tracked secrets) filled by earlier syncs. A difference with T alone may be any
	// staleness (C01's subject); it is a cross-namespace matter when the long-running files are
	// exactly what a fresh pipeline writes with every permission open.
	nfD := disk.NormalForm(nil)
	if DiffNF(nfD, nfT, "long-running", "foreign-objects-absent") == "" {
		return
	}
	open := map[string]map[string]client.Object{KConfigMap: {}}
	cm, _ := r.kube.ks(KConfigMap).store[globalConfigMapName].(*api.ConfigMap)
	if cm == nil {
		cm = mkConfigMap(globalConfigMapName, map[string]string{})
	} else {
		cm = cm.DeepCopy()
	}
	if cm.Data == nil {
		cm.Data = map[string]string{}
	}
	for _, k := range c09GlobalKey {
		cm.Data[k] = "allow"
	}
	open[KConfigMap][globalConfigMapName] = cm
	// (two full syncs: the permissions a sync works with may be the ones the previous sync left)
	r.freshTwice = true
	nfOpen, _ := r.freshWithReads(open)
	r.freshTwice = false
	if nfOpen != nil && DiffNF(nfD, nfOpen, "long-running", "all-open") == "" && DiffNF(nfOpen, nfT, "all-open", "foreign-objects-absent") != "" {
		d := DiffNF(nfD, nfT, "long-running", "foreign-objects-absent")
		r.violate(&Violation{Property: "C09", Oracle: "long-running", Class: "long-running-uses-foreign-object:" + diffClass2(d),
			Witness: fmt.Sprintf("%d denied cross-namespace reference(s); the long-running controller writes what a controller with every cross-namespace key open writes: %s", n, d)})
	}
}

// checkNamespaceProjection: with every cross-namespace class closed, what is
// configured for the resources of one namespace does not depend on what lives
// in the others. Every ingress has hosts of its own in this profile, so the
// backends of namespace X (sections backend X_*) are a function of X alone:
// they are compared between the world as it is and the world without any
// Ingress, Service, Endpoints or Secret of the other namespaces. This also
// covers uses that carry no written reference at all (oauth looks its
// authentication service up by path).
func (r *Run) checkNamespaceProjection() {
	for _, class := range []string{"crt", "ca", "passwd", "services"} {
		if !r.c09Denied(class) {
			return
		}
	}
	if r.diskConfig() == nil {
		return
	}
	r.probe("model_compared")
	full, _ := r.freshWithReads(nil)
	if full == nil {
		return
	}
	for _, ns := range []string{"a", "b"} {
		hide := map[string]map[string]client.Object{}
		n := 0
		for _, kind := range []string{KIngress, KService, KEndpoints, KSecret, KPod} {
			hide[kind] = map[string]client.Object{}
			for key, o := range r.kube.ks(kind).store {
				if o.GetNamespace() != ns && o.GetNamespace() != podNamespace {
					hide[kind][key] = nil
					n++
				}
			}
		}
		if n == 0 {
			continue
		}
		alone, _ := r.freshWithReads(hide)
		if alone == nil {
			continue
		}
		r.probe("c09_projections_compared")
		for id, lines := range full {
			if !strings.HasPrefix(id, "backend "+ns+"_") {
				continue
			}
			other, ok := alone[id]
			if !ok {
				r.violate(&Violation{Property: "C09", Oracle: "projection", Class: "namespace-config-depends-on-foreign-objects:section",
					Witness: fmt.Sprintf("section %q exists only while the objects of the other namespaces exist", id)})
				return
			}
			if strings.Join(lines, "\n") != strings.Join(other, "\n") {
				d := DiffNF(NF{id: lines}, NF{id: other}, "with-other-namespaces", "namespace-alone")
				r.violate(&Violation{Property: "C09", Oracle: "projection", Class: "namespace-config-depends-on-foreign-objects:content",
					Witness: d})
				return
			}
		}
		for id := range alone {
			if strings.HasPrefix(id, "backend "+ns+"_") {
				if _, ok := full[id]; !ok {
					r.violate(&Violation{Property: "C09", Oracle: "projection", Class: "namespace-config-depends-on-foreign-objects:section",
						Witness: fmt.Sprintf("section %q disappears when the objects of the other namespaces exist", id)})
					return
				}
			}
		}
	}
}
