package hapsim

// SimHAProxy: the external HAProxy the controller talks to through the master
// and admin unix sockets. It loads the configuration from SimDisk on `reload`
// and applies runtime commands to its in-memory state. Connections are
// synchronous in-memory net.Conn objects: a Write is parsed and answered at
// once, a Read returns the queued answer (or blocks on the fake clock until the
// deadline when there is none).

import (
	"errors"
	"fmt"
	"io"
	"net"
	"os"
	"sort"
	"strconv"
	"strings"
	"syscall"
	"time"
)

// SrvState is the runtime state of one server slot.
type SrvState struct {
	Name   string
	Addr   string
	Port   int
	Weight int
	Maint  bool // state maint
	Drain  bool // state drain
	Cookie string
	// Disabled as loaded from the configuration ("disabled" keyword)
}

// HAProxy is the simulated process pair (master + worker).
type HAProxy struct {
	run    *Run
	prefix string
	cfgDir string

	Up           bool // master socket exists
	Loaded       *HAConfig
	LoadedSeq    int // number of successful loads
	Reloads      int
	FailedLoads  int
	LastLoadErrs []string
	// runtime state, reset on every successful load
	Servers map[string]map[string]*SrvState // backend -> server -> state
	Certs   map[string][]byte               // crt file path -> payload in memory
	pending map[string][]byte               // set ssl cert transaction

	// reloading: master CLI refuses connections until this fake instant
	busyUntil time.Time
	// RefuseBadConfig: a configuration the loader model rejects makes the reload fail.
	RefuseBadConfig bool
	// Legacy24 renders `show proc` in the 2.2-2.4 layout.
	Legacy24 bool

	// journal of commands (for oracles / evidence)
	AdminCmds     []string
	MasterCmds    []string
	CmdsSinceLoad int
	// DirtySinceLoad: a runtime command was applied after an error reply was
	// produced (reset_after_exec) or a command failed half way.
	Log []string
}

func NewHAProxy(run *Run, prefix string) *HAProxy {
	return &HAProxy{
		run: run, prefix: prefix, cfgDir: prefix + "/etc/haproxy",
		Up: true, Servers: map[string]map[string]*SrvState{}, Certs: map[string][]byte{}, pending: map[string][]byte{},
	}
}

func (h *HAProxy) masterAddr() string { return h.prefix + "/var/run/haproxy/master.sock" }
func (h *HAProxy) adminAddr() string  { return h.prefix + "/var/run/haproxy/admin.sock" }

// ---------------------------------------------------------------------------
// zzsimrt.NetSim

func (h *HAProxy) SocketExists(path string) bool {
	switch path {
	case h.masterAddr():
		return h.Up
	case h.adminAddr():
		return h.Up && h.Loaded != nil
	}
	return false
}

func (h *HAProxy) LookupIP(host string) ([]net.IP, error) {
	return h.run.dnsLookupIP(host)
}

func (h *HAProxy) LookupHost(host string) ([]string, error) {
	ips, err := h.run.dnsLookupIP(host)
	if err != nil {
		return nil, err
	}
	out := make([]string, len(ips))
	for i, ip := range ips {
		out[i] = ip.String()
	}
	return out, nil
}

func opErr(op, addr string, errno syscall.Errno) error {
	return &net.OpError{Op: op, Net: "unix", Addr: &net.UnixAddr{Name: addr, Net: "unix"}, Err: os.NewSyscallError("connect", errno)}
}

func (h *HAProxy) Dial(network, address string) (net.Conn, error) {
	rt := h.run.rt
	if rt.Crashed {
		return nil, opErr("dial", address, syscall.ECONNREFUSED)
	}
	master := address == h.masterAddr()
	admin := address == h.adminAddr()
	if !master && !admin {
		return nil, opErr("dial", address, syscall.ENOENT)
	}
	if !h.Up || (admin && h.Loaded == nil) {
		return nil, opErr("dial", address, syscall.ENOENT)
	}
	if master && time.Now().Before(h.busyUntil) {
		rt.Stat("haproxy.master_busy_refused")
		return nil, opErr("dial", address, syscall.ECONNREFUSED)
	}
	if rt.Fault("sock.dial_refused", address) {
		return nil, opErr("dial", address, syscall.ECONNREFUSED)
	}
	if rt.Fault("sock.dial_enoent", address) {
		return nil, opErr("dial", address, syscall.ENOENT)
	}
	return &simConn{h: h, master: master, addr: address, gen: h.LoadedSeq}, nil
}

// ---------------------------------------------------------------------------
// connection

type simConn struct {
	h        *HAProxy
	gen      int // the worker process that accepted the connection (admin socket): a reload starts another one
	master   bool
	addr     string
	in       []byte
	out      []byte
	prompt   bool
	closed   bool // closed by the peer (haproxy)
	lclosed  bool // closed locally
	deadline time.Time
	payload  *strings.Builder // multi-line payload in progress
	paycmd   string
	broken   error
}

type simAddr string

func (a simAddr) Network() string { return "unix" }
func (a simAddr) String() string  { return string(a) }

func (c *simConn) LocalAddr() net.Addr                { return simAddr("client") }
func (c *simConn) RemoteAddr() net.Addr               { return simAddr(c.addr) }
func (c *simConn) SetDeadline(t time.Time) error      { c.deadline = t; return nil }
func (c *simConn) SetReadDeadline(t time.Time) error  { c.deadline = t; return nil }
func (c *simConn) SetWriteDeadline(t time.Time) error { return nil }
func (c *simConn) Close() error                       { c.lclosed = true; return nil }

type timeoutErr struct{}

func (timeoutErr) Error() string   { return "i/o timeout" }
func (timeoutErr) Timeout() bool   { return true }
func (timeoutErr) Temporary() bool { return true }

func (c *simConn) Write(b []byte) (int, error) {
	rt := c.h.run.rt
	if c.lclosed {
		return 0, net.ErrClosed
	}
	if rt.Crashed {
		return 0, &net.OpError{Op: "write", Net: "unix", Err: os.NewSyscallError("write", syscall.EPIPE)}
	}
	rt.Sched("sock.write:" + c.addr)
	if c.closed || c.broken != nil {
		return 0, &net.OpError{Op: "write", Net: "unix", Err: os.NewSyscallError("write", syscall.EPIPE)}
	}
	if rt.Fault("sock.write_fail", firstLine(b)) {
		c.broken = syscall.EPIPE
		return 0, &net.OpError{Op: "write", Net: "unix", Err: os.NewSyscallError("write", syscall.EPIPE)}
	}
	if rt.Fault("sock.reset_before_exec", firstLine(b)) {
		// the command is lost, the connection dies; the reader sees a reset
		c.broken = syscall.ECONNRESET
		return len(b), nil
	}
	c.in = append(c.in, b...)
	c.process()
	return len(b), nil
}

func firstLine(b []byte) string {
	s := string(b)
	if i := strings.IndexByte(s, '\n'); i >= 0 {
		s = s[:i]
	}
	if len(s) > 60 {
		s = s[:60]
	}
	return s
}

func (c *simConn) Read(b []byte) (int, error) {
	rt := c.h.run.rt
	if c.lclosed {
		return 0, net.ErrClosed
	}
	if rt.Crashed {
		return 0, &net.OpError{Op: "read", Net: "unix", Err: os.NewSyscallError("read", syscall.ECONNRESET)}
	}
	if c.broken != nil {
		return 0, &net.OpError{Op: "read", Net: "unix", Err: os.NewSyscallError("read", syscall.ECONNRESET)}
	}
	if len(c.out) == 0 {
		if c.closed {
			return 0, io.EOF
		}
		// nothing to read: block until the deadline on the fake clock
		if d := time.Until(c.deadline); d > 0 {
			time.Sleep(d)
		}
		return 0, &net.OpError{Op: "read", Net: "unix", Err: timeoutErr{}}
	}
	if rt.Fault("sock.read_timeout", "") {
		if d := time.Until(c.deadline); d > 0 {
			time.Sleep(d)
		}
		c.out = nil
		c.broken = syscall.ETIMEDOUT
		return 0, &net.OpError{Op: "read", Net: "unix", Err: timeoutErr{}}
	}
	if rt.Fault("sock.reset_after_exec", "") {
		c.out = nil
		c.broken = syscall.ECONNRESET
		return 0, &net.OpError{Op: "read", Net: "unix", Err: os.NewSyscallError("read", syscall.ECONNRESET)}
	}
	n := len(c.out)
	if n > len(b) {
		n = len(b)
	}
	if n > 1 && rt.Fault("sock.short_reads", "") {
		n = 1 + rt.Tape.Choose("sock.short.len", n-1)
	}
	copy(b, c.out[:n])
	c.out = c.out[n:]
	return n, nil
}

// process consumes complete command lines from c.in.
func (c *simConn) process() {
	for {
		i := strings.IndexByte(string(c.in), '\n')
		if i < 0 {
			return
		}
		line := string(c.in[:i])
		c.in = c.in[i+1:]
		if c.payload != nil {
			if line == "" {
				cmd := c.paycmd
				pl := c.payload.String()
				c.payload = nil
				c.reply(c.adminCommand(cmd, pl))
			} else {
				c.payload.WriteString(line)
				c.payload.WriteByte('\n')
			}
			continue
		}
		line = strings.TrimSpace(line)
		if line == "" {
			continue
		}
		if strings.HasSuffix(line, "<<") {
			c.paycmd = strings.TrimSpace(strings.TrimSuffix(line, "<<"))
			c.payload = &strings.Builder{}
			continue
		}
		if line == "prompt" {
			c.prompt = true
			c.reply("")
			continue
		}
		if c.master {
			out, closeAfter := c.h.masterCommand(line)
			if closeAfter {
				c.closed = true
				return
			}
			c.reply(out)
		} else {
			c.reply(c.adminCommand(line, ""))
		}
	}
}

// reply queues the answer with HAProxy's framing: in interactive mode the
// output is followed by "\n> " (master: "\nmaster> "), otherwise by an empty line and,
// on the admin socket, the connection is closed.
func (c *simConn) reply(out string) {
	rt := c.h.run.rt
	if out != "" && !strings.HasSuffix(out, "\n") {
		out += "\n"
	}
	if !c.master && rt.Fault("sock.garbage_reply", "") {
		// admin socket only: a corrupted master CLI is outside the fault model
		out = "\x00\x01garbage\n"
	}
	if c.prompt {
		if c.master {
			c.out = append(c.out, []byte(out+"\nmaster> ")...)
		} else {
			c.out = append(c.out, []byte(out+"\n> ")...)
		}
		return
	}
	c.out = append(c.out, []byte(out+"\n")...)
	if !c.master {
		c.closed = true
	}
}

// ---------------------------------------------------------------------------
// master CLI

func (h *HAProxy) masterCommand(line string) (out string, closeConn bool) {
	h.MasterCmds = append(h.MasterCmds, line)
	h.run.trace("master< %s", line)
	switch {
	case line == "reload":
		h.Reload()
		return "", true
	case line == "show proc":
		return h.showProc(), false
	}
	return "Unknown command.\n", false
}

func (h *HAProxy) showProc() string {
	var b strings.Builder
	worker := h.Loaded != nil
	if h.Legacy24 {
		b.WriteString("#<PID>          <type>          <relative PID>  <reloads>       <uptime>        <version>      \n")
		fmt.Fprintf(&b, "%-16d%-16s%-16d%-16d%-16s%s\n", 1, "master", 0, h.Reloads, "0d00h01m28s", "2.2.3-0e58a34")
		b.WriteString("# workers\n")
		// in 2.2-2.4 a failed reload leaves no current worker
		if worker && (len(h.LastLoadErrs) == 0) {
			fmt.Fprintf(&b, "%-16d%-16s%-16d%-16d%-16s%s\n", 3, "worker", 1, 0, "0d00h00m00s", "2.2.3-0e58a34")
		}
		b.WriteString("# old workers\n")
		if worker && len(h.LastLoadErrs) > 0 {
			fmt.Fprintf(&b, "%-16d%-16s%-16s%-16d%-16s%s\n", 2, "worker", "[was: 1]", 1, "0d00h00m28s", "2.2.3-0e58a34")
		}
		b.WriteString("# programs\n")
		return b.String()
	}
	failed := 0
	if len(h.LastLoadErrs) > 0 {
		failed = h.FailedLoads
		if failed == 0 {
			failed = 1
		}
	}
	b.WriteString("#<PID>          <type>          <reloads>       <uptime>        <version>      \n")
	rel := strconv.Itoa(h.Reloads)
	if failed > 0 {
		rel = fmt.Sprintf("%d [failed: %d]", h.Reloads, failed)
	}
	fmt.Fprintf(&b, "%-16d%-16s%-16s%-16s%s\n", 1, "master", rel, "0d00h01m28s", "2.5.3-abf078b")
	b.WriteString("# workers\n")
	if worker {
		fmt.Fprintf(&b, "%-16d%-16s%-16d%-16s%s\n", 3, "worker", 0, "0d00h00m00s", "2.5.3-abf078b")
	}
	b.WriteString("# old workers\n")
	b.WriteString("# programs\n")
	return b.String()
}

// Reload loads the configuration from disk. A configuration that cannot be
// loaded (or an injected failure) keeps the previous worker.
func (h *HAProxy) Reload() {
	rt := h.run.rt
	h.Reloads++
	rt.Stat("haproxy.reload")
	if rt.Fault("haproxy.reload_slow", "") {
		h.busyUntil = time.Now().Add(time.Duration(50+rt.Tape.Choose("haproxy.slow.ms", 3000)) * time.Millisecond)
	}
	if rt.Fault("haproxy.reload_fail", "") {
		h.FailedLoads++
		h.LastLoadErrs = []string{"injected reload failure"}
		h.run.trace("haproxy reload: injected failure")
		return
	}
	cfg, problems := LoadConfig(rt.Disk, h.cfgDir)
	if len(problems) > 0 {
		h.run.noteLoadProblems(problems)
	}
	if cfg == nil || (len(problems) > 0 && h.RefuseBadConfig) {
		h.FailedLoads++
		h.LastLoadErrs = problems
		if len(problems) == 0 {
			h.LastLoadErrs = []string{"no configuration"}
		}
		h.run.trace("haproxy reload: refused: %v", h.LastLoadErrs)
		rt.Stat("haproxy.reload_refused")
		return
	}
	h.LastLoadErrs = nil
	h.FailedLoads = 0
	h.install(cfg)
	h.run.trace("haproxy reload: loaded #%d (%d backends)", h.LoadedSeq, len(cfg.Backends))
}

// install makes cfg the running configuration and resets the runtime state.
func (h *HAProxy) install(cfg *HAConfig) {
	h.Loaded = cfg
	h.LoadedSeq++
	h.CmdsSinceLoad = 0
	h.Servers = map[string]map[string]*SrvState{}
	for _, name := range cfg.BackendNames() {
		b := cfg.Backends[name]
		m := map[string]*SrvState{}
		for _, s := range b.Servers {
			m[s.Name] = &SrvState{Name: s.Name, Addr: s.Addr, Port: s.Port, Weight: s.Weight, Maint: s.Disabled, Cookie: s.Cookie}
		}
		h.Servers[name] = m
	}
	h.Certs = map[string][]byte{}
	for path, data := range cfg.CertFiles {
		h.Certs[path] = data
	}
	h.pending = map[string][]byte{}
}

// ---------------------------------------------------------------------------
// admin CLI

// adminCommand runs the command on the worker that accepted the connection. After a reload that is the
// outgoing process, which stays around while it has sessions (this connection is one): it answers as usual,
// and nothing it is told reaches the process that serves the traffic.
func (c *simConn) adminCommand(line, payload string) string {
	h := c.h
	if c.gen == h.LoadedSeq {
		return h.adminCommand(line, payload)
	}
	h.run.rt.Stat("haproxy.cmd_to_old_worker")
	h.run.probe("admin_command_to_outgoing_worker")
	f := strings.Fields(line)
	switch {
	case len(f) >= 3 && f[0] == "set" && f[1] == "server":
		h.run.trace("admin(old worker)< %s", line)
		return ""
	case len(f) >= 4 && f[0] == "set" && f[1] == "ssl" && f[2] == "cert":
		return "Transaction created for certificate " + f[3] + "!\n"
	case len(f) >= 4 && f[0] == "commit" && f[1] == "ssl" && f[2] == "cert":
		return "Committing " + f[3] + ".\nSuccess!\n"
	}
	return h.adminExecReadOnly(line)
}

// adminExecReadOnly answers the commands that change nothing.
func (h *HAProxy) adminExecReadOnly(line string) string {
	f := strings.Fields(line)
	switch {
	case len(f) >= 2 && f[0] == "show" && f[1] == "info":
		return "Name: HAProxy\nVersion: 2.5.3\nIdle_pct: 100\n"
	case len(f) >= 3 && f[0] == "show" && f[1] == "servers" && f[2] == "state":
		return "1\n# be_id be_name srv_id srv_name srv_addr\n"
	case len(f) >= 2 && f[0] == "show" && f[1] == "sess":
		return ""
	}
	return "Unknown command. Please enter one of the following commands only :\n  help\n"
}

func (h *HAProxy) adminCommand(line, payload string) string {
	rt := h.run.rt
	short := line
	if len(short) > 100 {
		short = short[:100]
	}
	h.AdminCmds = append(h.AdminCmds, short)
	h.CmdsSinceLoad++
	rt.Stat("haproxy.admin_cmd")
	if rt.Fault("sock.nonok_reply", short) {
		h.run.trace("admin< %s  => injected non-OK reply", short)
		if f := strings.Fields(line); len(f) >= 4 && f[0] == "commit" && f[1] == "ssl" && f[2] == "cert" {
			// HAProxy's answer to a commit it cannot apply starts like a successful one
			delete(h.pending, f[3])
			return "Committing " + f[3] + ".\nunable to load certificate from file '" + f[3] + "'.\nFailed!\n"
		}
		return "Permission denied\n"
	}
	out := h.adminExec(line, payload)
	h.run.trace("admin< %s  => %q", short, out)
	return out
}

func (h *HAProxy) adminExec(line, payload string) string {
	f := strings.Fields(line)
	if len(f) == 0 {
		return ""
	}
	switch {
	case f[0] == "set" && len(f) >= 3 && f[1] == "server":
		return h.setServer(f[2], f[3:])
	case f[0] == "set" && len(f) >= 4 && f[1] == "ssl" && f[2] == "cert":
		file := f[3]
		if _, ok := h.Certs[file]; !ok {
			return "Can't replace a certificate which is not referenced by the configuration!\nCan't update " + file + "!\n"
		}
		if !validPEMPair([]byte(payload)) {
			return "unable to load certificate from file '" + file + "'.\nCan't update " + file + "!\n"
		}
		h.pending[file] = []byte(payload)
		return "Transaction created for certificate " + file + "!\n"
	case f[0] == "commit" && len(f) >= 4 && f[1] == "ssl" && f[2] == "cert":
		file := f[3]
		p, ok := h.pending[file]
		if !ok {
			return "No ongoing transaction! !\nCan't commit " + file + "!\n"
		}
		delete(h.pending, file)
		h.Certs[file] = p
		h.run.rt.Stat("haproxy.cert_committed")
		return "Committing " + file + ".\nSuccess!\n"
	case f[0] == "show" && len(f) >= 2 && f[1] == "info":
		return "Name: HAProxy\nVersion: 2.5.3\nIdle_pct: 100\n"
	case f[0] == "show" && len(f) >= 3 && f[1] == "servers" && f[2] == "state":
		return "1\n# be_id be_name srv_id srv_name srv_addr\n"
	case f[0] == "show" && len(f) >= 2 && f[1] == "sess":
		return ""
	}
	return "Unknown command. Please enter one of the following commands only :\n  help\n"
}

func (h *HAProxy) setServer(target string, args []string) string {
	be, srv, ok := strings.Cut(target, "/")
	if !ok {
		return "Require 'backend/server'.\n"
	}
	servers := h.Servers[be]
	if servers == nil {
		return "No such backend.\n"
	}
	s := servers[srv]
	if s == nil {
		return "No such server.\n"
	}
	if len(args) == 0 {
		return "'set server <srv>' only supports 'agent', 'health', 'state', 'weight', 'addr', 'fqdn', 'check-addr', 'check-port' and 'ssl'.\n"
	}
	switch args[0] {
	case "state":
		if len(args) < 2 {
			return "'set server <srv> state' expects 'ready', 'drain' and 'maint'.\n"
		}
		switch args[1] {
		case "ready":
			s.Maint, s.Drain = false, false
		case "drain":
			s.Maint, s.Drain = false, true
		case "maint":
			s.Maint = true
		default:
			return "'set server <srv> state' expects 'ready', 'drain' and 'maint'.\n"
		}
		return ""
	case "weight":
		if len(args) < 2 {
			return "Require <weight> or <weight%>.\n"
		}
		w, err := strconv.Atoi(args[1])
		if err != nil || w < 0 || w > 256 {
			return "Backend is using a static LB algorithm and only accepts weights '0%' and '100%'.\n"
		}
		s.Weight = w
		return ""
	case "addr":
		if len(args) < 2 {
			return "set server <b>/<s> addr requires an address and optionally a port.\n"
		}
		ip := net.ParseIP(args[1])
		if ip == nil {
			return "Invalid addr family is not supported.\n"
		}
		port := s.Port
		if len(args) >= 4 && args[2] == "port" {
			p, err := strconv.Atoi(args[3])
			if err != nil || p <= 0 || p > 65535 {
				return "provided port is not an integer\n"
			}
			port = p
		}
		if s.Addr == args[1] && s.Port == port {
			return "no need to change the addr, no need to change the port\n"
		}
		var msg []string
		if s.Addr != args[1] {
			msg = append(msg, fmt.Sprintf("IP changed from '%s' to '%s'", s.Addr, args[1]))
		} else {
			msg = append(msg, "no need to change the addr")
		}
		if s.Port != port {
			msg = append(msg, fmt.Sprintf("port changed from '%d' to '%d'", s.Port, port))
		} else {
			msg = append(msg, "no need to change the port")
		}
		s.Addr, s.Port = args[1], port
		return strings.Join(msg, ", ") + " by 'stats socket command'\n"
	}
	return "'set server <srv>' only supports 'agent', 'health', 'state', 'weight', 'addr', 'fqdn', 'check-addr', 'check-port' and 'ssl'.\n"
}

// SortedServers returns the runtime servers of a backend by name.
func (h *HAProxy) SortedServers(be string) []*SrvState {
	m := h.Servers[be]
	out := make([]*SrvState, 0, len(m))
	for _, s := range m {
		out = append(out, s)
	}
	sort.Slice(out, func(i, j int) bool { return out[i].Name < out[j].Name })
	return out
}

var errNoConfig = errors.New("no configuration loaded")
