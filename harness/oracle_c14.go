package hapsim

// C14 — every Kubernetes event lands in exactly one reconciliation batch.
//
// L0c: the real watchers (handlers, predicates, batch swap) driven by
// cooperative tasks. watchers.go carries a yield before every statement and its
// mutex is scheduler aware, so the tape decides who runs at statement
// granularity: with the lock in place the scheduler observes mutual exclusion,
// with the lock removed or narrowed lost updates become reachable and replay.

import (
	"context"
	"fmt"
	"math/rand/v2"
	"reflect"
	"sort"
	"strings"
	"time"

	"github.com/anishathalye/porcupine"
	"github.com/go-logr/logr"
	api "k8s.io/api/core/v1"
	networking "k8s.io/api/networking/v1"
	metav1 "k8s.io/apimachinery/pkg/apis/meta/v1"
	"sigs.k8s.io/controller-runtime/pkg/client"
	gatewayv1 "sigs.k8s.io/gateway-api/apis/v1"
	gatewayv1alpha2 "sigs.k8s.io/gateway-api/apis/v1alpha2"
	gatewayv1beta1 "sigs.k8s.io/gateway-api/apis/v1beta1"

	ctrlconfig "github.com/jcmoraisjr/haproxy-ingress/pkg/controller/config"
	"github.com/jcmoraisjr/haproxy-ingress/pkg/controller/reconciler"
	convtypes "github.com/jcmoraisjr/haproxy-ingress/pkg/converters/types"
)

// stub validator: validity is written on the object itself
type c14Validator struct{}

func (c14Validator) IsValidGatewayA2(*gatewayv1alpha2.Gateway) bool           { return true }
func (c14Validator) IsValidGatewayClassA2(*gatewayv1alpha2.GatewayClass) bool { return true }
func (c14Validator) IsValidGatewayB1(*gatewayv1beta1.Gateway) bool            { return true }
func (c14Validator) IsValidGatewayClassB1(*gatewayv1beta1.GatewayClass) bool  { return true }
func (c14Validator) IsValidGateway(*gatewayv1.Gateway) bool                   { return true }
func (c14Validator) IsValidGatewayClass(*gatewayv1.GatewayClass) bool         { return true }
func (c14Validator) IsValidIngress(ing *networking.Ingress) bool {
	return ing.Annotations["hapsim/valid"] == "true"
}
func (c14Validator) IsValidIngressClass(ic *networking.IngressClass) bool {
	return ic.Spec.Controller == controllerName
}

// c14Event is one generated informer event (serialised in Op.Note/Key).
type c14Event struct {
	ID       int
	Kind     string // task = kind
	Typ      string // add update delete
	OldValid bool   // ingress / ingressclass
	NewValid bool
	Pass     bool // whether the predicates are expected to let it through
	CMVer    int  // config map data version (global / tcp)
	CMWhich  string
	CMEmpty  bool // the update leaves the ConfigMap without data
	Alias    int  // > 0: the event is about the object of that earlier event of the same kind
	Shared   bool // the object of this event gets more than one event in the history
}

// sharedName: events of the global / tcp ConfigMap all carry the same object name, and so do the events
// that are about one and the same object (Alias): their links cannot tell the events apart.
func (e c14Event) sharedName() bool { return e.Kind == KConfigMap && e.CMWhich != "other" || e.Shared }

func (e c14Event) name() string {
	id := e.ID
	if e.Alias > 0 {
		id = e.Alias
	}
	return fmt.Sprintf("%s-e%d", strings.ToLower(e.Kind), id)
}

func genC14(seed uint64, tier string) *RunConfig {
	r := rand.New(rand.NewPCG(seed, 0xc14))
	rc := &RunConfig{Property: "C14", Profile: "batches", Seed: seed, World: &World{}}
	kindsPool := []string{KIngress, KIngress, KService, KEndpoints, KSecret, KConfigMap, KConfigMap, KPod, KIngressClass}
	n := 4 + r.IntN(9)
	nswaps := 1 + r.IntN(4)
	if tier == "thorough" {
		n = 4 + r.IntN(14)
		nswaps = 1 + r.IntN(6)
	}
	cmver := 0
	firstOfKind := map[string][]int{}
	for i := 1; i <= n; i++ {
		kind := kindsPool[r.IntN(len(kindsPool))]
		typ := []string{"add", "update", "update", "delete"}[r.IntN(4)]
		ov, nv := r.IntN(3) > 0, r.IntN(3) > 0
		note := fmt.Sprintf("%v,%v", ov, nv)
		key := ""
		if kind == KConfigMap {
			cmver++
			key = fmt.Sprintf("%s:%d", []string{"global", "global", "tcp", "other"}[r.IntN(4)], cmver)
			if r.IntN(4) == 0 {
				key += ":emptied" // the ConfigMap lost its last key
			}
			if typ == "delete" && !strings.HasSuffix(key, ":emptied") {
				// a removed ConfigMap is delivered as an emptied one
				key += ":emptied"
			}
		}
		if kind != KConfigMap && len(firstOfKind[kind]) > 0 && r.IntN(4) == 0 {
			// a second event about an object the history already touched (created and updated, deleted and
			// created again ... possibly inside one batch)
			note += fmt.Sprintf(",%d", firstOfKind[kind][r.IntN(len(firstOfKind[kind]))])
		} else if kind != KConfigMap {
			firstOfKind[kind] = append(firstOfKind[kind], i)
		}
		rc.Ops = append(rc.Ops, Op{Type: "event", Kind: kind, Note: typ + "," + note, Key: key, Ms: i})
	}
	for i := 0; i < nswaps; i++ {
		rc.Ops = append(rc.Ops, Op{Type: "swap"})
	}
	return rc
}

// cooperative scheduler -------------------------------------------------------

type coopTask struct {
	name   string
	resume chan struct{}
	done   bool
	fn     func()
}

type coopSched struct {
	r     *Run
	tasks []*coopTask
	cur   *coopTask
	back  chan *coopTask
	seq   int64
	steps int
	// panicked: a task died with a panic raised by the code under test
	panicked string
	harness  harnessError
}

func (s *coopSched) yield(site string) {
	t := s.cur
	s.back <- t
	<-t.resume
}

func (s *coopSched) run() {
	for _, t := range s.tasks {
		t := t
		go func() {
			<-t.resume
			func() {
				defer func() {
					if p := recover(); p != nil {
						if he, ok := p.(harnessError); ok {
							s.harness = he
						} else {
							s.panicked = fmt.Sprintf("%s: %v", t.name, p)
						}
					}
				}()
				t.fn()
			}()
			t.done = true
			s.back <- t
		}()
	}
	for {
		var runnable []*coopTask
		for _, t := range s.tasks {
			if !t.done {
				runnable = append(runnable, t)
			}
		}
		if len(runnable) == 0 {
			return
		}
		var next *coopTask
		// mostly let the current task go on; switch with probability 1/3
		if s.cur != nil && !s.cur.done && s.r.tape.Choose("c14.switch", 3) != 0 {
			next = s.cur
		} else {
			next = runnable[s.r.tape.Choose("c14.pick", len(runnable))]
		}
		if next != s.cur {
			s.r.probe("c14_task_switch")
		}
		s.cur = next
		s.steps++
		if s.steps > 200000 {
			panic(harnessError("c14: scheduler step budget exceeded (livelock?)"))
		}
		next.resume <- struct{}{}
		<-s.back
	}
}

// porcupine model -------------------------------------------------------------

type c14In struct {
	put  int // event id (0 = take)
	take bool
}
type c14Out struct {
	ids []int
}

var c14Model = porcupine.Model{
	Init: func() interface{} { return "" },
	Step: func(state, input, output interface{}) (bool, interface{}) {
		st := state.(string)
		in := input.(c14In)
		if !in.take {
			return true, st + fmt.Sprintf("%d,", in.put)
		}
		out := output.(c14Out)
		var want []int
		for _, f := range strings.Split(st, ",") {
			if f != "" {
				var id int
				fmt.Sscanf(f, "%d", &id)
				want = append(want, id)
			}
		}
		got := append([]int(nil), out.ids...)
		sort.Ints(want)
		sort.Ints(got)
		return reflect.DeepEqual(want, got) || (len(want) == 0 && len(got) == 0), ""
	},
	Equal: func(a, b interface{}) bool {
		x := strings.Split(a.(string), ",")
		y := strings.Split(b.(string), ",")
		sort.Strings(x)
		sort.Strings(y)
		return reflect.DeepEqual(x, y)
	},
}

// run -------------------------------------------------------------------------

func runC14(r *Run) error {
	cfg := &ctrlconfig.Config{ConfigMapName: globalConfigMapName, TCPConfigMapName: tcpConfigMapName}
	hw := reconciler.HapsimNewWatchers(logr.NewContext(context.Background(), logr.Discard()), cfg, c14Validator{})
	handlers := map[string]reconciler.HapsimHandler{}
	for _, h := range hw.Handlers() {
		ki := kindByObjType[reflect.TypeOf(h.Type())]
		if ki != nil {
			handlers[ki.name] = h
		}
	}
	// decode events
	var events []c14Event
	nswaps := 0
	for _, op := range r.Cfg.Ops {
		switch op.Type {
		case "swap":
			nswaps++
		case "event":
			f := strings.Split(op.Note, ",")
			e := c14Event{ID: op.Ms, Kind: op.Kind, Typ: f[0], OldValid: f[1] == "true", NewValid: f[2] == "true"}
			if len(f) > 3 {
				fmt.Sscanf(f[3], "%d", &e.Alias)
			}
			if op.Key != "" {
				f := strings.Split(op.Key, ":")
				e.CMWhich = f[0]
				fmt.Sscanf(f[1], "%d", &e.CMVer)
				e.CMEmpty = len(f) > 2
			}
			events = append(events, e)
		}
	}
	for i := range events {
		if a := events[i].Alias; a > 0 {
			events[i].Shared = true
			for j := range events {
				if events[j].ID == a {
					events[j].Shared = true
				}
			}
		}
	}
	sharedID := map[int]bool{}
	for _, e := range events {
		if e.Shared {
			sharedID[e.ID] = true
		}
	}
	// the accumulator model is fed with the events whose link identifies them
	unshared := func(ids []int) []int {
		var out []int
		for _, id := range ids {
			if !sharedID[id] {
				out = append(out, id)
			}
		}
		return out
	}
	byKind := map[string][]c14Event{}
	var kindOrder []string
	for _, e := range events {
		if byKind[e.Kind] == nil {
			kindOrder = append(kindOrder, e.Kind)
		}
		byKind[e.Kind] = append(byKind[e.Kind], e)
	}
	sched := &coopSched{r: r, back: make(chan *coopTask)}
	var ops []porcupine.Operation
	accepted := map[int]bool{}
	var batches []*convtypes.ChangedObjects
	var batchSeq []int64
	var cmDelivered []c14Event // accepted config map events in completion order
	cmDoneSeq := map[int]int64{}
	nextSeq := func() int64 { sched.seq++; return sched.seq }

	for ci, kind := range kindOrder {
		kind := kind
		ci := ci
		evs := byKind[kind]
		sched.tasks = append(sched.tasks, &coopTask{name: "informer:" + kind, resume: make(chan struct{}), fn: func() {
			h := handlers[kind]
			for _, e := range evs {
				oldObj, newObj := c14Objects(e)
				call := nextSeq()
				var ran bool
				switch e.Typ {
				case "add":
					ran = h.Create(newObj)
				case "update":
					ran = h.Update(oldObj, newObj)
				case "delete":
					ran = h.Delete(oldObj)
				}
				ret := nextSeq()
				if ran {
					accepted[e.ID] = true
					if !e.sharedName() {
						ops = append(ops, porcupine.Operation{ClientId: ci + 1, Input: c14In{put: e.ID}, Call: call, Output: c14Out{}, Return: ret})
					}
					if kind == KConfigMap && e.CMWhich != "other" {
						cmDelivered = append(cmDelivered, e)
						cmDoneSeq[e.ID] = ret
					}
					r.probe("c14_event_accepted")
				} else {
					r.probe("c14_event_filtered")
				}
				r.trace("event %d %s %s ran=%v [%d,%d]", e.ID, kind, e.Typ, ran, call, ret)
			}
		}})
	}
	sched.tasks = append(sched.tasks, &coopTask{name: "reconciler", resume: make(chan struct{}), fn: func() {
		for i := 0; i < nswaps; i++ {
			call := nextSeq()
			ch := hw.GetChangedObjects()
			ret := nextSeq()
			batches = append(batches, ch)
			batchSeq = append(batchSeq, ret)
			ids := unshared(batchEventIDs(ch))
			ops = append(ops, porcupine.Operation{ClientId: 0, Input: c14In{take: true}, Call: call, Output: c14Out{ids: ids}, Return: ret})
			r.trace("swap %d -> %v [%d,%d]", i, ids, call, ret)
			r.reconciles++
		}
	}})
	r.rt.YieldHook = sched.yield
	sched.run()
	r.rt.YieldHook = nil
	if sched.harness != "" {
		return sched.harness
	}
	if sched.panicked != "" {
		// the hand-off crashed under this interleaving: the event being delivered is lost with it
		r.violate(&Violation{Property: "C14", Oracle: "conservation", Class: "panic-during-handoff",
			Witness: "a handler or the batch swap panicked under this interleaving: " + sched.panicked})
		return nil
	}
	// final drain (sequential)
	final := hw.GetChangedObjects()
	batches = append(batches, final)
	batchSeq = append(batchSeq, nextSeq())
	ops = append(ops, porcupine.Operation{ClientId: 0, Input: c14In{take: true}, Call: sched.seq + 1, Output: c14Out{ids: unshared(batchEventIDs(final))}, Return: sched.seq + 2})
	r.probe("c14_histories")

	// (1) conservation: each accepted event in exactly one batch: link, description, typed entry
	count := map[int]int{}
	for _, b := range batches {
		for _, id := range batchEventIDs(b) {
			count[id]++
		}
	}
	for _, e := range events {
		if e.Shared && e.Kind != KConfigMap && accepted[e.ID] {
			// several events about one object: each accepted one leaves its link and its own change
			// description in some batch (the descriptions of one batch are a set)
			found := false
			for _, b := range batches {
				found = found || (batchHasLink(b, e) && batchHasObjectDesc(b, e))
			}
			r.probe("c14_shared_object_event")
			if !found {
				r.violate(&Violation{Property: "C14", Oracle: "conservation", Class: "description-missing",
					Witness: fmt.Sprintf("event %d (%s %s %s, an object with several events) is accepted but no batch carries its link together with its change description: %s", e.ID, e.Typ, e.Kind, e.name(), describeBatches(batches))})
				return nil
			}
		}
		if e.sharedName() {
			continue // the global and tcp ConfigMaps keep their name: checked by the chaining oracle
		}
		want := 0
		if accepted[e.ID] {
			want = 1
		}
		if count[e.ID] != want {
			r.violate(&Violation{Property: "C14", Oracle: "conservation", Class: fmt.Sprintf("link-in-%d-batches", count[e.ID]),
				Witness: fmt.Sprintf("event %d (%s %s %s) accepted=%v appears in %d batch(es): %s", e.ID, e.Typ, e.Kind, e.name(), accepted[e.ID], count[e.ID], describeBatches(batches))})
			return nil
		}
		if !accepted[e.ID] {
			continue
		}
		for _, b := range batches {
			if !batchHasLink(b, e) {
				continue
			}
			if !batchHasObjectDesc(b, e) {
				r.violate(&Violation{Property: "C14", Oracle: "conservation", Class: "description-missing",
					Witness: fmt.Sprintf("event %d (%s %s): the batch with its link lacks its change description: %v", e.ID, e.Typ, e.Kind, b.Objects)})
				return nil
			}
			if msg := checkTypedEntry(b, e); msg != "" {
				r.violate(&Violation{Property: "C14", Oracle: "class-transition", Class: "typed-entry:" + classOf(msg),
					Witness: fmt.Sprintf("event %d (%s %s old-valid=%v new-valid=%v): %s", e.ID, e.Typ, e.Kind, e.OldValid, e.NewValid, msg)})
				return nil
			}
		}
	}
	acceptedName := map[string]bool{}
	for _, e := range events {
		if accepted[e.ID] {
			acceptedName[e.name()] = true
		}
	}
	// typed entries never outnumber the accepted events
	for _, b := range batches {
		for _, ing := range append(append(append([]*networking.Ingress{}, b.IngressesAdd...), b.IngressesUpd...), b.IngressesDel...) {
			var id int
			if _, err := fmt.Sscanf(ing.Name, "ingress-e%d", &id); err == nil && !acceptedName[ing.Name] {
				r.violate(&Violation{Property: "C14", Oracle: "conservation", Class: "typed-entry-of-filtered-event",
					Witness: fmt.Sprintf("ingress %s is listed in a batch although its event was filtered", ing.Name)})
				return nil
			}
		}
	}
	// (2) real-time order: linearizable against the accumulator model
	res := porcupine.CheckOperationsTimeout(c14Model, ops, 20*time.Second)
	switch res {
	case porcupine.Illegal:
		r.violate(&Violation{Property: "C14", Oracle: "linearizability", Class: "not-linearizable",
			Witness: fmt.Sprintf("history of %d operations is not linearizable against the accumulator model: %s", len(ops), describeOps(ops))})
		return nil
	case porcupine.Unknown:
		return harnessError("c14: porcupine timed out")
	}
	r.probe("c14_linearizable")
	// (3) chaining of the ConfigMap data
	for _, which := range []string{"global", "tcp"} {
		var expectedCur map[string]string
		for bi, b := range batches {
			cur, nw := b.GlobalConfigMapDataCur, b.GlobalConfigMapDataNew
			if which == "tcp" {
				cur, nw = b.TCPConfigMapDataCur, b.TCPConfigMapDataNew
			}
			if !reflect.DeepEqual(cur, expectedCur) && !(len(cur) == 0 && len(expectedCur) == 0) {
				r.violate(&Violation{Property: "C14", Oracle: "configmap-chaining", Class: "cur-not-previous-new:" + which,
					Witness: fmt.Sprintf("batch %d sees %s ConfigMap data %v as current, the previously delivered data is %v", bi, which, cur, expectedCur)})
				return nil
			}
			if nw != nil {
				expectedCur = nw
				r.probe("c14_cm_chained")
			}
			// the new data of a batch is the data of the last accepted event of that ConfigMap that completed before the swap
			var lastVer int
			for _, e := range cmDelivered {
				if e.CMWhich == which && cmDoneSeq[e.ID] < batchSeq[bi] && (bi == 0 || cmDoneSeq[e.ID] > batchSeq[bi-1]) {
					lastVer = e.CMVer
				}
			}
			_ = lastVer
		}
	}
	// every accepted ConfigMap version is either the New of some batch or superseded by a later one in the same batch
	for _, which := range []string{"global", "tcp"} {
		var vers []c14Event
		for _, e := range cmDelivered {
			if e.CMWhich == which {
				vers = append(vers, e)
			}
		}
		if len(vers) == 0 {
			continue
		}
		lastEv := vers[len(vers)-1]
		last := lastEv.CMVer
		found := false
		var lastNew map[string]string
		for _, b := range batches {
			nw := b.GlobalConfigMapDataNew
			if which == "tcp" {
				nw = b.TCPConfigMapDataNew
			}
			if nw != nil {
				lastNew = nw
			}
		}
		if lastEv.CMEmpty {
			found = lastNew != nil && len(lastNew) == 0
		} else {
			found = lastNew != nil && lastNew["version"] == fmt.Sprint(last)
		}
		if !found {
			r.violate(&Violation{Property: "C14", Oracle: "configmap-chaining", Class: "last-data-lost:" + which,
				Witness: fmt.Sprintf("the last delivered %s ConfigMap data (version %d) is the new data of no batch", which, last)})
			return nil
		}
	}
	// (4) every accepted event asked for a reconciliation
	if got, want := len(hw.QueueAdds()), len(accepted); got != want {
		r.violate(&Violation{Property: "C14", Oracle: "notify", Class: "queue-adds",
			Witness: fmt.Sprintf("%d accepted events but %d reconciliation requests", want, got)})
	}
	return nil
}

func classOf(msg string) string {
	if i := strings.IndexByte(msg, ':'); i > 0 {
		return strings.ReplaceAll(msg[:i], " ", "-")
	}
	return "other"
}

func c14Objects(e c14Event) (oldObj, newObj client.Object) {
	name := e.name()
	valid := func(v bool) map[string]string {
		if v {
			return map[string]string{"hapsim/valid": "true"}
		}
		return map[string]string{"hapsim/valid": "false"}
	}
	m := func(gen int64) metav1.ObjectMeta {
		return metav1.ObjectMeta{Namespace: "ns", Name: name, Generation: gen}
	}
	switch e.Kind {
	case KIngress:
		o := &networking.Ingress{ObjectMeta: m(1)}
		o.Annotations = valid(e.OldValid)
		n := &networking.Ingress{ObjectMeta: m(2)}
		n.Annotations = valid(e.NewValid)
		if e.Typ == "add" {
			return nil, n
		}
		return o, n
	case KIngressClass:
		mk := func(v bool, gen int64) *networking.IngressClass {
			ic := &networking.IngressClass{ObjectMeta: metav1.ObjectMeta{Name: name, Generation: gen}}
			if v {
				ic.Spec.Controller = controllerName
			} else {
				ic.Spec.Controller = "example.com/other"
			}
			return ic
		}
		return mk(e.OldValid, 1), mk(e.NewValid, 2)
	case KService:
		return &api.Service{ObjectMeta: m(1)}, &api.Service{ObjectMeta: m(2)}
	case KEndpoints:
		o := &api.Endpoints{ObjectMeta: m(0)}
		n := &api.Endpoints{ObjectMeta: m(0)}
		n.Subsets = []api.EndpointSubset{{Addresses: []api.EndpointAddress{{IP: "10.1.1.1"}}}}
		return o, n
	case KSecret:
		return &api.Secret{ObjectMeta: m(0)}, &api.Secret{ObjectMeta: m(0)}
	case KPod:
		o := &api.Pod{ObjectMeta: m(0)}
		n := &api.Pod{ObjectMeta: m(0)}
		t := metav1.NewTime(epoch)
		n.DeletionTimestamp = &t
		return o, n
	case KConfigMap:
		nsname := globalConfigMapName
		switch e.CMWhich {
		case "tcp":
			nsname = tcpConfigMapName
		case "other":
			nsname = "ns/" + name
		}
		o := mkConfigMap(nsname, map[string]string{"version": fmt.Sprint(e.CMVer - 1)})
		n := mkConfigMap(nsname, map[string]string{"version": fmt.Sprint(e.CMVer)})
		if e.CMEmpty {
			n.Data = nil
		}
		return o, n
	}
	panic(harnessError("c14: kind " + e.Kind))
}

// expected acceptance and typed list, from the documented watcher behaviour
func c14Expected(e c14Event) (accepted bool, list string) {
	switch e.Kind {
	case KIngress:
		switch e.Typ {
		case "add":
			return e.NewValid, "add"
		case "delete":
			return e.OldValid, "del"
		default:
			switch {
			case e.OldValid && e.NewValid:
				return true, "upd"
			case !e.OldValid && e.NewValid:
				return true, "add"
			case e.OldValid && !e.NewValid:
				return true, "del"
			}
			return false, ""
		}
	}
	return true, ""
}

func linkName(e c14Event) (convtypes.ResourceType, string) {
	switch e.Kind {
	case KIngress:
		return convtypes.ResourceIngress, "ns/" + e.name()
	case KIngressClass:
		return convtypes.ResourceIngressClass, e.name()
	case KService:
		return convtypes.ResourceService, "ns/" + e.name()
	case KEndpoints:
		return convtypes.ResourceEndpoints, "ns/" + e.name()
	case KSecret:
		return convtypes.ResourceSecret, "ns/" + e.name()
	case KPod:
		return convtypes.ResourcePod, "ns/" + e.name()
	case KConfigMap:
		switch e.CMWhich {
		case "global":
			return convtypes.ResourceConfigMap, globalConfigMapName
		case "tcp":
			return convtypes.ResourceConfigMap, tcpConfigMapName
		}
		return convtypes.ResourceConfigMap, "ns/" + e.name()
	}
	return "", ""
}

// batchEventIDs lists the event ids whose (unique) object name is linked in the
// batch. ConfigMap events share the object name: they are identified by the
// data version carried as New.
func batchEventIDs(b *convtypes.ChangedObjects) []int {
	var ids []int
	for _, names := range b.Links {
		for _, n := range names {
			i := strings.LastIndex(n, "-e")
			if i < 0 {
				continue
			}
			var id int
			if _, err := fmt.Sscanf(n[i+2:], "%d", &id); err == nil {
				ids = append(ids, id)
			}
		}
	}
	sort.Ints(ids)
	return ids
}

func batchHasLink(b *convtypes.ChangedObjects, e c14Event) bool {
	res, name := linkName(e)
	for _, n := range b.Links[res] {
		if n == name {
			return true
		}
	}
	return false
}

func batchHasObjectDesc(b *convtypes.ChangedObjects, e c14Event) bool {
	res, name := linkName(e)
	ev := map[string]string{"add": "add", "update": "update", "delete": "del"}[e.Typ]
	want := fmt.Sprintf("%s/%s:%s", ev, res, name)
	for _, o := range b.Objects {
		if o == want {
			return true
		}
	}
	return false
}

func checkTypedEntry(b *convtypes.ChangedObjects, e c14Event) string {
	if e.Kind != KIngress {
		return ""
	}
	_, list := c14Expected(e)
	in := func(l []*networking.Ingress) int {
		n := 0
		for _, i := range l {
			if i.Name == e.name() {
				n++
			}
		}
		return n
	}
	got := map[string]int{"add": in(b.IngressesAdd), "upd": in(b.IngressesUpd), "del": in(b.IngressesDel)}
	for _, l := range []string{"add", "upd", "del"} {
		want := 0
		if l == list {
			want = 1
		}
		if got[l] != want {
			return fmt.Sprintf("wrong list: expected exactly one entry in '%s', found add=%d upd=%d del=%d", list, got["add"], got["upd"], got["del"])
		}
	}
	return ""
}

func describeBatches(bs []*convtypes.ChangedObjects) string {
	var out []string
	for i, b := range bs {
		out = append(out, fmt.Sprintf("batch%d=%v", i, batchEventIDs(b)))
	}
	return strings.Join(out, " ")
}

func describeOps(ops []porcupine.Operation) string {
	var out []string
	for _, o := range ops {
		in := o.Input.(c14In)
		if in.take {
			out = append(out, fmt.Sprintf("take->%v[%d,%d]", o.Output.(c14Out).ids, o.Call, o.Return))
		} else {
			out = append(out, fmt.Sprintf("put(%d)[%d,%d]", in.put, o.Call, o.Return))
		}
	}
	return strings.Join(out, " ")
}

func init() {
	register(&Profile{Name: "batches", Prop: "C14", Weight: 4, Custom: runC14, Oracles: OracleSet{Property: "C14"}, Build: genC14})
}
