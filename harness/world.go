package hapsim

// World description (JSON-serialisable, so a replay file is self-describing),
// object builders and the certificate pool.

import (
	"crypto/ecdsa"
	"crypto/elliptic"
	"crypto/rand"
	"crypto/tls"
	"crypto/x509"
	"crypto/x509/pkix"
	"encoding/json"
	"encoding/pem"
	"fmt"
	"math/big"
	"strings"
	"sync"
	"time"

	api "k8s.io/api/core/v1"
	networking "k8s.io/api/networking/v1"
	metav1 "k8s.io/apimachinery/pkg/apis/meta/v1"
	"k8s.io/apimachinery/pkg/util/intstr"
	"sigs.k8s.io/controller-runtime/pkg/client"
)

// WObj is one Kubernetes object of the world.
type WObj struct {
	Kind string          `json:"kind"`
	Obj  json.RawMessage `json:"obj"`
}

// World is the initial cluster state.
type World struct {
	Objects []WObj `json:"objects"`
	// DNS table for ExternalName services and auth-url host names.
	DNS map[string][]string `json:"dns,omitempty"`
}

// Op is one step of the generated history.
type Op struct {
	// apply | delete | renotify | advance | quiesce | batch_begin | batch_end |
	// faults_off | faults_on | crash | leader
	Type string          `json:"type"`
	Kind string          `json:"kind,omitempty"`
	Key  string          `json:"key,omitempty"`
	Obj  json.RawMessage `json:"obj,omitempty"`
	Ms   int             `json:"ms,omitempty"`
	Note string          `json:"note,omitempty"`
}

func (o Op) String() string {
	switch o.Type {
	case "apply", "delete", "renotify":
		s := fmt.Sprintf("%s %s %s", o.Type, o.Kind, o.Key)
		if o.Note != "" {
			s += " (" + o.Note + ")"
		}
		return s
	case "advance":
		return fmt.Sprintf("advance %dms", o.Ms)
	}
	if o.Note != "" {
		return o.Type + " (" + o.Note + ")"
	}
	return o.Type
}

func encodeObj(o client.Object) json.RawMessage {
	b, err := json.Marshal(o)
	if err != nil {
		panic(harnessError("encode: " + err.Error()))
	}
	return b
}

func decodeObj(kind string, raw json.RawMessage) client.Object {
	ki := kindByName[kind]
	if ki == nil {
		panic(harnessError("decode: unknown kind " + kind))
	}
	o := ki.obj.DeepCopyObject().(client.Object)
	if err := json.Unmarshal(raw, o); err != nil {
		panic(harnessError("decode " + kind + ": " + err.Error()))
	}
	return o
}

func wobj(o client.Object) WObj { return WObj{Kind: kindOf(o), Obj: encodeObj(o)} }

func applyOp(o client.Object, note string) Op {
	return Op{Type: "apply", Kind: kindOf(o), Key: objKey(o), Obj: encodeObj(o), Note: note}
}

func deleteOp(kind, key, note string) Op { return Op{Type: "delete", Kind: kind, Key: key, Note: note} }

// ---------------------------------------------------------------------------
// certificate pool (generated once per process; only identities enter logs)

type certPair struct {
	CN       string
	Crt, Key []byte
	Serial   string
}

var (
	certOnce sync.Once
	certPool []certPair
	caPair   certPair
)

var certEpoch = time.Date(1999, 1, 1, 0, 0, 0, 0, time.UTC)

func makeCert(cn string, dns []string, notBefore, notAfter time.Time, isCA bool) certPair {
	priv, err := ecdsa.GenerateKey(elliptic.P256(), rand.Reader)
	if err != nil {
		panic(err)
	}
	serial, _ := rand.Int(rand.Reader, big.NewInt(1<<62))
	tmpl := x509.Certificate{
		SerialNumber:          serial,
		Subject:               pkix.Name{CommonName: cn, Organization: []string{"hapsim"}},
		NotBefore:             notBefore,
		NotAfter:              notAfter,
		KeyUsage:              x509.KeyUsageKeyEncipherment | x509.KeyUsageDigitalSignature,
		ExtKeyUsage:           []x509.ExtKeyUsage{x509.ExtKeyUsageServerAuth},
		BasicConstraintsValid: true,
		DNSNames:              dns,
		IsCA:                  isCA,
	}
	if isCA {
		tmpl.KeyUsage |= x509.KeyUsageCertSign
	}
	der, err := x509.CreateCertificate(rand.Reader, &tmpl, &tmpl, &priv.PublicKey, priv)
	if err != nil {
		panic(err)
	}
	kder, _ := x509.MarshalECPrivateKey(priv)
	return certPair{
		CN:     cn,
		Crt:    pem.EncodeToMemory(&pem.Block{Type: "CERTIFICATE", Bytes: der}),
		Key:    pem.EncodeToMemory(&pem.Block{Type: "EC PRIVATE KEY", Bytes: kder}),
		Serial: serial.String(),
	}
}

func certs() []certPair {
	certOnce.Do(func() {
		for i := 0; i < 8; i++ {
			cn := fmt.Sprintf("cert%d.hapsim", i)
			certPool = append(certPool, makeCert(cn, []string{cn}, certEpoch, certEpoch.AddDate(40, 0, 0), false))
		}
		caPair = makeCert("hapsim-ca", nil, certEpoch, certEpoch.AddDate(40, 0, 0), true)
	})
	return certPool
}

// certIdentity names the key pair inside a PEM bundle by its certificate CN
// (pool certificates have unique CNs). "" when nothing parses.
func certIdentity(pemData []byte) string {
	id := ""
	for len(pemData) > 0 {
		var b *pem.Block
		b, pemData = pem.Decode(pemData)
		if b == nil {
			return id
		}
		if b.Type == "CERTIFICATE" {
			c, err := x509.ParseCertificate(b.Bytes)
			if err != nil {
				return ""
			}
			if id != "" {
				id += "+" // the rest of the chain is part of what is served
			}
			id += c.Subject.CommonName + "#" + c.SerialNumber.String()
		}
	}
	return id
}

// leafPEM returns the first certificate block of a bundle.
func leafPEM(pemData []byte) []byte {
	for len(pemData) > 0 {
		var b *pem.Block
		b, pemData = pem.Decode(pemData)
		if b == nil {
			return nil
		}
		if b.Type == "CERTIFICATE" {
			return pem.EncodeToMemory(b)
		}
	}
	return nil
}

// validPEMPair reports whether the bundle holds a certificate and its key.
func validPEMPair(data []byte) bool {
	var crt, key []byte
	rest := data
	for len(rest) > 0 {
		var b *pem.Block
		b, rest = pem.Decode(rest)
		if b == nil {
			break
		}
		enc := pem.EncodeToMemory(b)
		if b.Type == "CERTIFICATE" {
			if crt == nil {
				crt = enc
			}
		} else if strings.Contains(b.Type, "PRIVATE KEY") {
			key = enc
		}
	}
	if crt == nil || key == nil {
		return false
	}
	_, err := tls.X509KeyPair(crt, key)
	return err == nil
}

// ---------------------------------------------------------------------------
// object builders

var epoch = time.Date(2000, 1, 1, 0, 0, 0, 0, time.UTC)

func meta(ns, name string, createdSec int) metav1.ObjectMeta {
	return metav1.ObjectMeta{Namespace: ns, Name: name, Generation: 1,
		CreationTimestamp: metav1.NewTime(epoch.Add(-time.Hour).Add(time.Duration(createdSec) * time.Second))}
}

type pathSpec struct {
	Path     string
	PathType string // "" | Exact | Prefix | ImplementationSpecific
	Svc      string
	Port     string // number or name
}

type ruleSpec struct {
	Host  string
	Paths []pathSpec
}

type tlsSpec struct {
	Hosts  []string
	Secret string
}

func backendRef(svc, port string) networking.IngressBackend {
	b := networking.IngressBackend{Service: &networking.IngressServiceBackend{Name: svc}}
	var n int32
	if _, err := fmt.Sscanf(port, "%d", &n); err == nil && fmt.Sprint(n) == port {
		b.Service.Port.Number = n
	} else {
		b.Service.Port.Name = port
	}
	return b
}

func mkIngress(ns, name string, created int, ann map[string]string, class *string, rules []ruleSpec, tlss []tlsSpec, defBackend *pathSpec) *networking.Ingress {
	ing := &networking.Ingress{ObjectMeta: meta(ns, name, created)}
	if len(ann) > 0 {
		ing.Annotations = map[string]string{}
		for k, v := range ann {
			ing.Annotations[k] = v
		}
	}
	ing.Spec.IngressClassName = class
	for _, r := range rules {
		rule := networking.IngressRule{Host: r.Host}
		hv := &networking.HTTPIngressRuleValue{}
		for _, p := range r.Paths {
			hp := networking.HTTPIngressPath{Path: p.Path, Backend: backendRef(p.Svc, p.Port)}
			if p.PathType != "" {
				pt := networking.PathType(p.PathType)
				hp.PathType = &pt
			}
			hv.Paths = append(hv.Paths, hp)
		}
		rule.HTTP = hv
		ing.Spec.Rules = append(ing.Spec.Rules, rule)
	}
	for _, t := range tlss {
		ing.Spec.TLS = append(ing.Spec.TLS, networking.IngressTLS{Hosts: t.Hosts, SecretName: t.Secret})
	}
	if defBackend != nil {
		b := backendRef(defBackend.Svc, defBackend.Port)
		ing.Spec.DefaultBackend = &b
	}
	return ing
}

type portSpec struct {
	Name   string
	Port   int
	Target string // number or name
}

func mkService(ns, name string, ann map[string]string, selector map[string]string, ports []portSpec) *api.Service {
	svc := &api.Service{ObjectMeta: meta(ns, name, 0)}
	if len(ann) > 0 {
		svc.Annotations = map[string]string{}
		for k, v := range ann {
			svc.Annotations[k] = v
		}
	}
	svc.Spec.Selector = selector
	svc.Spec.ClusterIP = "10.96.0.1"
	for _, p := range ports {
		sp := api.ServicePort{Name: p.Name, Port: int32(p.Port), Protocol: api.ProtocolTCP}
		var n int
		if _, err := fmt.Sscanf(p.Target, "%d", &n); err == nil && fmt.Sprint(n) == p.Target {
			sp.TargetPort = intstr.FromInt(n)
		} else {
			sp.TargetPort = intstr.FromString(p.Target)
		}
		svc.Spec.Ports = append(svc.Spec.Ports, sp)
	}
	return svc
}

type epAddr struct {
	IP    string
	Pod   string // pod name ("" = no targetRef)
	Ready bool
}

type epPort struct {
	Name string
	Port int
}

func mkEndpoints(ns, name string, addrs []epAddr, ports []epPort) *api.Endpoints {
	ep := &api.Endpoints{ObjectMeta: meta(ns, name, 0)}
	ep.Generation = 0
	if len(addrs) == 0 {
		return ep
	}
	ss := api.EndpointSubset{}
	for _, a := range addrs {
		ea := api.EndpointAddress{IP: a.IP}
		if a.Pod != "" {
			ea.TargetRef = &api.ObjectReference{Kind: "Pod", Namespace: ns, Name: a.Pod}
		}
		if a.Ready {
			ss.Addresses = append(ss.Addresses, ea)
		} else {
			ss.NotReadyAddresses = append(ss.NotReadyAddresses, ea)
		}
	}
	for _, p := range ports {
		ss.Ports = append(ss.Ports, api.EndpointPort{Name: p.Name, Port: int32(p.Port), Protocol: api.ProtocolTCP})
	}
	ep.Subsets = []api.EndpointSubset{ss}
	return ep
}

func mkTLSSecret(ns, name string, c certPair) *api.Secret {
	s := &api.Secret{ObjectMeta: meta(ns, name, 0), Type: api.SecretTypeTLS}
	s.Generation = 0
	s.Data = map[string][]byte{api.TLSCertKey: c.Crt, api.TLSPrivateKeyKey: c.Key}
	return s
}

func mkOpaqueSecret(ns, name string, data map[string][]byte) *api.Secret {
	s := &api.Secret{ObjectMeta: meta(ns, name, 0), Type: api.SecretTypeOpaque}
	s.Generation = 0
	s.Data = data
	return s
}

func mkConfigMap(nsname string, data map[string]string) *api.ConfigMap {
	ns, name, _ := strings.Cut(nsname, "/")
	cm := &api.ConfigMap{ObjectMeta: meta(ns, name, 0)}
	cm.Generation = 0
	cm.Data = map[string]string{}
	for k, v := range data {
		cm.Data[k] = v
	}
	return cm
}

func mkIngressClass(name, controller string, paramsCM string) *networking.IngressClass {
	ic := &networking.IngressClass{ObjectMeta: meta("", name, 0)}
	ic.Spec.Controller = controller
	if paramsCM != "" {
		ic.Spec.Parameters = &networking.IngressClassParametersReference{Kind: "ConfigMap", Name: paramsCM}
	}
	return ic
}

func mkPod(ns, name, ip string, labels map[string]string, terminating bool, ports []epPort) *api.Pod {
	p := &api.Pod{ObjectMeta: meta(ns, name, 0)}
	p.Generation = 0
	p.Labels = labels
	p.Status.PodIP = ip
	c := api.Container{Name: "c"}
	for _, pt := range ports {
		c.Ports = append(c.Ports, api.ContainerPort{Name: pt.Name, ContainerPort: int32(pt.Port), Protocol: api.ProtocolTCP})
	}
	p.Spec.Containers = []api.Container{c}
	if terminating {
		t := metav1.NewTime(epoch)
		p.DeletionTimestamp = &t
	}
	return p
}

func cmData(o client.Object) map[string]string {
	cm := o.(*api.ConfigMap)
	if cm.Data == nil {
		return map[string]string{}
	}
	return cm.Data
}
