package hapsim

// Entry point of the simulation binary (a test binary because testing/synctest
// needs a *testing.T). Protocol, through environment variables:
//
//	HAPSIM_PROP=C01 HAPSIM_SEEDS=<first>:<count> [HAPSIM_PROFILE=name] [HAPSIM_TIER=quick|thorough]
//	    run <count> seeds starting at <first>; one JSON result per line on HAPSIM_OUT (default stdout)
//	HAPSIM_REPLAY=<file>
//	    run the recorded configuration and tape of a replay file
//	HAPSIM_TRACE=1   include the event trace in the result
//	HAPSIM_BUDGET_S  stop starting new runs after this many wall seconds

import (
	"bufio"
	"crypto/sha1"
	"encoding/hex"
	"encoding/json"
	"fmt"
	"os"
	"runtime"
	"sort"
	"strconv"
	"strings"
	"testing"
	"time"

	"github.com/go-logr/logr"
	rt "github.com/jcmoraisjr/haproxy-ingress/zzsimrt"
	ctrl "sigs.k8s.io/controller-runtime"
)

var watchdogWall = 25 * time.Second

// Result of one run.
type Result struct {
	Property   string           `json:"property"`
	Profile    string           `json:"profile"`
	Seed       uint64           `json:"seed"`
	Verdict    string           `json:"verdict"` // ok | violation | harness_error
	Violations []*Violation     `json:"violations,omitempty"`
	Error      string           `json:"error,omitempty"`
	Probes     map[string]int   `json:"probes,omitempty"`
	Stats      map[string]int   `json:"stats,omitempty"`
	Faults     []string         `json:"faults,omitempty"`
	SimTimeS   float64          `json:"sim_time_s"`
	WallMs     int64            `json:"wall_ms"`
	Ops        int              `json:"ops"`
	Reconciles int              `json:"reconciles"`
	Draws      int              `json:"draws"`
	NFHashes   []string         `json:"nf_hashes,omitempty"`
	TraceSig   string           `json:"trace_sig"`
	Nontrivial bool             `json:"nontrivial"`
	Config     *RunConfig       `json:"config,omitempty"`
	Tape       map[string][]int `json:"tape,omitempty"`
	Trace      []string         `json:"trace,omitempty"`
	Summary    []string         `json:"summary,omitempty"`
}

// ReplayFile is what a violation is reported with.
type ReplayFile struct {
	Property  string           `json:"property"`
	Profile   string           `json:"profile"`
	Seed      uint64           `json:"seed"`
	Tier      string           `json:"tier"`
	Violation *Violation       `json:"violation"`
	Config    *RunConfig       `json:"config"`
	Tape      map[string][]int `json:"tape"`
	Note      string           `json:"note,omitempty"`
}

func runOne(t *testing.T, prof *Profile, cfg *RunConfig, tape *rt.Tape, trace bool) *Result {
	res := &Result{Property: cfg.Property, Profile: cfg.Profile, Seed: cfg.Seed, Ops: len(cfg.Ops)}
	start := time.Now()
	// wall-clock watchdog (outside the bubble: real time)
	wd := time.AfterFunc(watchdogWall, func() {
		fmt.Fprintf(os.Stderr, "hapsim: WATCHDOG: run seed=%d profile=%s exceeded %s of wall time\n", cfg.Seed, cfg.Profile, watchdogWall)
		buf := make([]byte, 1<<20)
		n := runtime.Stack(buf, true)
		os.Stderr.Write(buf[:n])
		b, _ := json.Marshal(&Result{Property: cfg.Property, Profile: cfg.Profile, Seed: cfg.Seed, Verdict: "harness_error", Error: "watchdog: wall-clock limit exceeded"})
		os.Stdout.Write(append(b, '\n'))
		os.Exit(3)
	})
	defer wd.Stop()
	var run *Run
	var execErr error
	// one process runs many seeds: no hook of an earlier run may be alive in this one (a hook that takes a
	// lock adds scheduling points, and a run must not depend on what ran before it in the process)
	resetSimHooks()
	perr, stack := inBubble(t, func() {
		run = newRun(cfg, tape, trace)
		rt.SetCur(run.rt)
		defer rt.SetCur(nil)
		defer func() {
			// leave the bubble cleanly: stop the controller, free parked tasks
			if p := recover(); p != nil {
				if run.ctl != nil {
					run.ctl.Stop()
				}
				run.rt.KillAll()
				panic(p)
			}
			if run.ctl != nil {
				run.ctl.Stop()
				run.settle()
			}
			run.rt.KillAll()
		}()
		if prof.Custom != nil {
			run.or = prof.Oracles
			execErr = prof.Custom(run)
		} else {
			execErr = run.Execute(prof.Oracles)
		}
		res.SimTimeS = time.Since(run.simStart).Seconds()
	})
	res.WallMs = time.Since(start).Milliseconds()
	if run != nil {
		res.Probes = run.probes
		res.Stats = run.rt.Stats
		res.Faults = run.firedFaults
		res.Reconciles = run.reconciles
		res.Draws = tape.Draws()
		res.NFHashes = sortedKeys(run.nfHashes)
		res.Violations = run.violations
		if trace {
			res.Trace = run.Trace
		}
		res.TraceSig = run.signature()
		res.Nontrivial = run.nontrivial()
	}
	switch {
	case perr != nil:
		if he, ok := perr.(harnessError); ok {
			res.Verdict, res.Error = "harness_error", string(he)
		} else {
			// a panic inside controller code reached by the simulation is reported as harness
			// trouble with its stack: the properties do not speak about crashes
			res.Verdict, res.Error = "harness_error", fmt.Sprintf("panic: %v\n%s", perr, stack)
		}
	case execErr != nil:
		if _, ok := execErr.(invalidRun); ok {
			res.Verdict, res.Error = "invalid", execErr.Error()
		} else {
			res.Verdict, res.Error = "harness_error", execErr.Error()
		}
	case len(res.Violations) > 0:
		res.Verdict = "violation"
	default:
		res.Verdict = "ok"
	}
	if res.Verdict != "ok" && res.Verdict != "invalid" {
		res.Config = cfg
		res.Tape = tape.Record()
	}
	return res
}

// signature: hash of the sequence of observable event kinds of the run.
func (r *Run) signature() string {
	h := sha1.New()
	for _, s := range r.sig {
		h.Write([]byte(s))
		h.Write([]byte{0})
	}
	// probes summarise the kinds of things that happened
	for _, k := range sortedKeys(r.probes) {
		fmt.Fprintf(h, "%s=%d;", k, r.probes[k])
	}
	for _, f := range r.firedFaults {
		h.Write([]byte(f))
	}
	return hex.EncodeToString(h.Sum(nil)[:8])
}

// nontrivial: the run exercised incremental state (see the per-property rule in the evidence).
func (r *Run) nontrivial() bool {
	if r.or.Property == "" {
		return len(r.probes) > 0
	}
	p := r.probes
	switch r.or.Property {
	case "C12":
		return len(r.firedFaults) >= 1 && p["converge_checked"] >= 1 && r.reconciles >= 2
	case "C18":
		// a protected request was judged after an incremental update
		return p["auth_intercepted"]+p["auth_denied_outright"] >= 1 && r.reconciles >= 2
	case "C06":
		// at least one permuted pipeline really iterated some map in another order
		return p["order_permutations_compared"] >= 1 && p["order_map_permuted"] >= 1
	case "C09":
		// a state with denied cross-namespace references was judged after an incremental update
		return p["c09_denied_refs_states"] >= 1 && r.reconciles >= 2
	case "C17":
		// something was wanted, and the signer took at least one decision
		return p["acme_wanted_states"] >= 1 && p["acme_queue_add"] >= 1 && r.reconciles >= 2
	case "C10":
		// something was admitted and something else was not, judged after an incremental update
		return p["c10_admitted_http"]+p["c10_admitted_tcp"] >= 1 && r.reconciles >= 2
	case "C01", "C05", "C03", "C15", "C08":
		return p["fresh_compared"]+p["router_compared"]+p["model_compared"] >= 2 && r.reconciles >= 2
	case "C02":
		return p["effective_compared"] >= 1 && p["dyn_update_cmds"] >= 1
	case "C07":
		return p["loadable_checked"] >= 2
	case "C11":
		return r.reconciles >= 2
	}
	return len(p) > 0
}

func parseSeeds(s string) (uint64, int) {
	a, b, ok := strings.Cut(s, ":")
	first, _ := strconv.ParseUint(a, 10, 64)
	n := 1
	if ok {
		n, _ = strconv.Atoi(b)
	}
	return first, n
}

func TestSim(t *testing.T) {
	prop := os.Getenv("HAPSIM_PROP")
	replay := os.Getenv("HAPSIM_REPLAY")
	if prop == "" && replay == "" {
		t.Skip("HAPSIM_PROP or HAPSIM_REPLAY not set")
	}
	ctrl.SetLogger(logr.Discard())
	out := os.Stdout
	if f := os.Getenv("HAPSIM_OUT"); f != "" {
		fh, err := os.OpenFile(f, os.O_CREATE|os.O_WRONLY|os.O_APPEND, 0644)
		if err != nil {
			t.Fatal(err)
		}
		defer fh.Close()
		out = fh
	}
	w := bufio.NewWriter(out)
	defer w.Flush()
	emit := func(r *Result) {
		b, _ := json.Marshal(r)
		w.Write(b)
		w.WriteByte('\n')
		w.Flush()
	}
	trace := os.Getenv("HAPSIM_TRACE") != ""
	tier := os.Getenv("HAPSIM_TIER")
	if tier == "" {
		tier = "quick"
	}
	if replay != "" {
		data, err := os.ReadFile(replay)
		if err != nil {
			t.Fatal(err)
		}
		var rf ReplayFile
		if err := json.Unmarshal(data, &rf); err != nil {
			t.Fatal(err)
		}
		prof := profileByName(rf.Config.Property, rf.Config.Profile)
		if prof == nil {
			t.Fatalf("unknown profile %s/%s", rf.Config.Property, rf.Config.Profile)
		}
		res := runOne(t, prof, rf.Config, rt.NewReplayTape(rf.Seed, rf.Tape), trace)
		res.Config = nil
		if os.Getenv("HAPSIM_KEEPTAPE") == "" {
			res.Tape = nil
		}
		emit(res)
		return
	}
	first, n := parseSeeds(os.Getenv("HAPSIM_SEEDS"))
	budget, _ := strconv.Atoi(os.Getenv("HAPSIM_BUDGET_S"))
	start := time.Now()
	forced := os.Getenv("HAPSIM_PROFILE")
	for i := 0; i < n; i++ {
		if budget > 0 && time.Since(start) > time.Duration(budget)*time.Second {
			break
		}
		seed := first + uint64(i)
		prof := pickProfile(prop, seed)
		if forced != "" {
			prof = profileByName(prop, forced)
		}
		if prof == nil {
			t.Fatalf("no profile for %s", prop)
		}
		cfg := prof.Build(seed, tier)
		{
			// the constraints in force for this run: those of the open findings minus what the profile lifts
			all, _ := avoidFlags()
			cfg.Avoid = nil
			for _, a := range all {
				lifted := false
				for _, x := range cfg.IgnoreAvoid {
					lifted = lifted || x == a
				}
				if !lifted {
					cfg.Avoid = append(cfg.Avoid, a)
				}
			}
			cfg.Avoid = append(cfg.Avoid, cfg.ExtraAvoid...)
		}
		res := runOne(t, prof, cfg, rt.NewTape(seed), trace)
		if os.Getenv("HAPSIM_SAMPLE") != "" && i == 0 && res.Config == nil {
			res.Config = cfg
		}
		res.Summary = summarize(cfg)
		emit(res)
	}
}

// summarize renders the run compactly for evidence samples.
func summarize(cfg *RunConfig) []string {
	var s []string
	kinds := map[string]int{}
	for _, o := range cfg.World.Objects {
		kinds[o.Kind]++
	}
	var ks []string
	for _, k := range sortedKeys(kinds) {
		ks = append(ks, fmt.Sprintf("%s=%d", k, kinds[k]))
	}
	sort.Strings(ks)
	s = append(s, "world: "+strings.Join(ks, " "))
	s = append(s, fmt.Sprintf("ctl: shards=%d reload-interval=%dms rate=%.1f wait=%dms lagfree=%v maporder=%v midsched=%v faults=%v",
		cfg.Ctl.BackendShards, cfg.Ctl.ReloadIntervalMs, cfg.Ctl.RateLimitUpdate, cfg.Ctl.WaitBeforeUpdateMs, cfg.Lagfree, cfg.MapOrder, cfg.MidSched, cfg.Faults))
	for i, op := range cfg.Ops {
		if i >= 40 {
			s = append(s, fmt.Sprintf("... %d more ops", len(cfg.Ops)-i))
			break
		}
		s = append(s, op.String())
	}
	return s
}
