package hapsim

// Workload generation: a small world over deliberately tiny name pools (so that
// sharing of hosts, backends, secrets and classes is the rule) and a history of
// operations over it. Everything is drawn from one PRNG seeded by the run seed;
// the result (RunConfig) is plain data and is what a replay file stores.

import (
	"encoding/json"
	"fmt"
	"math/rand/v2"
	"os"
	"reflect"
	"sort"
	"strings"

	api "k8s.io/api/core/v1"
	networking "k8s.io/api/networking/v1"
	metav1 "k8s.io/apimachinery/pkg/apis/meta/v1"
	"sigs.k8s.io/controller-runtime/pkg/client"
)

const annPrefix = "haproxy-ingress.github.io/"

// annChoice is a configuration key with the values the generator may give it.
type annChoice struct {
	Key    string
	Values []string
}

var ingressAnnotations = []annChoice{
	{"ssl-redirect", []string{"true", "false"}},
	{"app-root", []string{"/app", "/login"}},
	{"balance-algorithm", []string{"leastconn", "roundrobin"}},
	{"maxconn-server", []string{"10", "20"}},
	{"timeout-server", []string{"10s", "20s"}},
	{"backend-protocol", []string{"h1", "h2", "h1-ssl"}},
	{"rewrite-target", []string{"/x", "/"}},
	{"allowlist-source-range", []string{"10.0.0.0/8", "192.168.0.0/16,10.1.0.0/16"}},
	{"denylist-source-range", []string{"172.16.0.0/12"}},
	{"auth-secret", []string{"auth", "auth2", "missing"}},
	{"affinity", []string{"cookie"}},
	{"session-cookie-name", []string{"SRV", "INGRESSCOOKIE"}},
	{"session-cookie-strategy", []string{"insert", "prefix", "rewrite"}},
	{"initial-weight", []string{"1", "50", "100"}},
	{"config-backend", []string{"http-request deny if { path /forbidden }", "acl x path /x\nhttp-request deny if x"}},
	{"cors-enable", []string{"true"}},
	{"hsts", []string{"false", "true"}},
	{"hsts-max-age", []string{"100", "200"}},
	{"limit-rps", []string{"10", "20"}},
	{"server-alias", []string{"alias.local", "alias2.local"}},
	{"redirect-from", []string{"old.local"}},
	{"proxy-body-size", []string{"1m", "2m"}},
	{"headers", []string{"x-a: b", "x-a: c"}},
	{"path-type", []string{"begin", "prefix", "exact", "regex"}},
	{"http-header-match", []string{"x-env: prod", "x-env: dev"}},
	{"dynamic-scaling", []string{"true", "false"}},
	{"slots-min-free", []string{"0", "1", "3"}},
	{"backend-server-slots-increment", []string{"1", "2", "4"}},
	{"backend-server-naming", []string{"sequence", "ip", "pod"}},
	{"secure-backends", []string{"true"}},
	{"secure-crt-secret", []string{"tls2", "missing"}},
	{"secure-verify-ca-secret", []string{"ca", "missing"}},
	{"auth-tls-secret", []string{"ca", "missing"}},
	{"auth-tls-verify-client", []string{"optional", "on"}},
	{"service-upstream", []string{"true"}},
	{"assign-backend-server-id", []string{"true"}},
	{"var-namespace", []string{"true"}},
	{"health-check-uri", []string{"/hz"}},
	{"blue-green-deploy", []string{"app=s1,1", "v=1=1,v=2=3"}},
	{"blue-green-header", []string{"X-Svc:v", "X-Svc:app"}},
	{"blue-green-cookie", []string{"SVC:v"}},
	{"limit-connections", []string{"5"}},
	{"ssl-passthrough", []string{"true"}},
	{"redirect-to", []string{"https://elsewhere.local"}},
	{"waf", []string{"modsecurity"}},
	{"oauth", []string{"oauth2_proxy"}},
	{"oauth-uri-prefix", []string{"/oauth2", "/", "", "/oauth2/"}},
	{"auth-url", []string{"http://10.9.9.9:8000/auth", "http://10.9.9.8:8000/auth", "http://10.9.9.7:8001/check", "svc://a/s2:80", "svc://missing:80", "http://authhost.local/x", "bad::url", "https://10.9.9.6/auth", "ftp://10.9.9.9/x", "http://nohost.local/x", "svc://s2", "svc://a/s2:81", "svc://s1:80", "svc://s1:80/check", "svc://a/s2:8080", "svc://s1:8080/check"}},
	{"auth-external-placement", []string{"frontend", "backend"}},
	{"session-cookie-preserve", []string{"true"}},
	{"session-cookie-dynamic", []string{"false", "true"}},
	{"session-cookie-value-strategy", []string{"pod-uid", "server-name"}},
	{"cert-signer", []string{"acme"}},
	{"tcp-service-port", []string{"7000", "7001"}},
	{"timeout-queue", []string{"3s"}},
	{"agent-check-port", []string{"9999"}},
	{"server-alias-regex", []string{`^[a-z]+\.rx\.local$`}},
}

var serviceAnnotations = []annChoice{
	{"balance-algorithm", []string{"leastconn", "first"}},
	{"maxconn-server", []string{"30"}},
	{"backend-protocol", []string{"h2"}},
	{"initial-weight", []string{"10"}},
	{"timeout-server", []string{"33s"}},
	{"slots-min-free", []string{"2"}},
	{"dynamic-scaling", []string{"true"}},
}

var serviceAnnotationsByName = []annChoice{
	{"secure-backends", []string{"true"}},
	{"secure-crt-secret", []string{"b/tls1", "a/tls2", "tls2", "a/tls1"}},
	{"secure-verify-ca-secret", []string{"b/ca", "a/ca", "ca"}},
	{"auth-secret", []string{"b/auth", "a/auth", "auth"}},
	{"auth-url", []string{"svc://s1:8080", "svc://s2:8080/check", "http://10.9.9.9:8000/auth", "svc://missing:80", "http://"}},
	{"auth-external-placement", []string{"frontend", "backend"}},
}

var globalKeys = []annChoice{
	{"drain-support", []string{"true", "false"}},
	{"strict-host", []string{"true", "false"}},
	{"path-type-order", []string{"exact,prefix,begin,regex", "regex,begin,prefix,exact", "begin,exact,regex,prefix"}},
	{"timeout-client", []string{"40s", "45s"}},
	{"max-connections", []string{"1000", "3000"}},
	{"ssl-redirect", []string{"false", "true"}},
	{"hsts", []string{"false"}},
	{"dynamic-scaling", []string{"true", "false"}},
	{"slots-min-free", []string{"0", "2"}},
	{"backend-server-slots-increment", []string{"1", "3"}},
	{"backend-server-naming", []string{"sequence", "ip", "pod"}},
	{"timeout-server", []string{"55s", "65s"}},
	{"balance-algorithm", []string{"leastconn"}},
	{"config-backend", []string{"http-request set-header x-global 1"}},
	{"cross-namespace-secrets-crt", []string{"allow", "deny", "allow", "deny", "Deny"}},
	{"cross-namespace-secrets-ca", []string{"allow", "deny", "allow", "deny", "Deny"}},
	{"cross-namespace-secrets-passwd", []string{"allow", "deny", "allow", "deny", "Deny"}},
	{"cross-namespace-services", []string{"allow", "deny", "allow", "deny", "Deny"}},
	{"forwardfor", []string{"ignore", "ifmissing"}},
	{"syslog-endpoint", []string{"127.0.0.1:514"}},
	{"auth-proxy", []string{"_front__auth:14415-14416", "_front__auth:14415-14415", "_front__auth:14415-14419"}},
	{"external-has-lua", []string{"true", "false"}},
	{"modsecurity-endpoints", []string{"10.8.8.8:12345"}},
	{"default-backend-redirect", []string{"https://default.local"}},
	{"acme-emails", []string{"a@b.c"}},
	{"acme-endpoint", []string{"v2-staging"}},
	{"acme-terms-agreed", []string{"true"}},
	{"bind-ip-addr-http", []string{"127.0.0.2"}},
	{"use-htx", []string{"true"}},
	{"no-tls-redirect-locations", []string{"/.well-known/acme-challenge,/open"}},
	{"config-frontend", []string{"http-request set-header x-front 1"}},
}

// GenOptions restrict and bias the generator for one profile.
type GenOptions struct {
	TCPConfigMap bool // the run has a tcp-services ConfigMap (ctl.TCPConfigMap must be set as well)
	SvcAnnChance int  // a Service gets each of its keys with chance 1/SvcAnnChance (default 5)
	// key allow-lists; nil = all
	IngressKeys []string
	ServiceKeys []string
	GlobalKeys  []string
	// excluded keys
	ExcludeIngressKeys []string
	ExcludeGlobalKeys  []string
	// ForceIngressKeys / ForceGlobalKeys are always enabled (focus profiles)
	ForceIngressKeys []string
	ForceGlobalKeys  []string
	// AnnChance: an enabled key is set on a generated ingress with probability 1/AnnChance (default 4)
	AnnChance int
	// how many of the allowed keys are enabled for one run (swarm)
	KeysPerRun   int
	MaxIngresses int
	MinOps       int
	MaxOps       int
	// operation weights (0 = off)
	W map[string]int
	// hosts and paths pools
	Hosts []string
	Paths []string
	// NoForeignClass keeps every ingress in this controller's class.
	NoForeignClass bool
	// QuiesceEvery: insert a sync point about every n operations (0 = only at the end)
	QuiesceEvery int
	NoTLS        bool
	NoOps        bool
	// NoDefaultBackend: no ingress declares spec.defaultBackend (the default host is shared by everybody)
	NoDefaultBackend bool
	// TLSSecrets overrides the secretName choices of spec.tls entries
	TLSSecrets []string
	// OwnHostAlways (sparse worlds): every rule and tls entry of an ingress uses the ingress' own host
	OwnHostAlways bool
	// NoOwnHost (sparse worlds): hosts come from the pool only, so that ingresses with their own services meet on a host
	NoOwnHost bool
	OnlyNS        string
	// Sparse: larger name pools and one host per ingress, so that the tracker's dirty
	// closures stay small (a missing tracking link shows only when no other path exists)
	Sparse bool
	// IgnoreAvoid lists avoid constraints that do not apply to this profile (it cannot
	// reach the trigger of the finding they belong to, e.g. it has no incremental history)
	IgnoreAvoid []string
	// ExtraAvoid lists constraints the profile adds on its own: the narrowed form of one it lifts.
	ExtraAvoid []string
	// ValueOverrides replaces the value list of a key (focus profiles)
	ValueOverrides map[string][]string
	// InitialGlobal is merged into the initial global ConfigMap
	InitialGlobal map[string]string
	// Avoid: generator constraints that keep the history away from the trigger
	// of a known, recorded finding (see known_findings.json); each flag is tied
	// to one finding, which is still demonstrated by its own replay file.
	Avoid map[string]bool
}

var defaultHosts = []string{"app.local", "api.local", "*.wild.local", ""}
var defaultPaths = []string{"/", "/app", "/app/", "/app1", "/app/sub", "/App", "/api", "/ap", "/app/other"}

var defaultWeights = map[string]int{
	"ing_create": 6, "ing_delete": 4, "ing_update": 14, "ing_ann": 8,
	"svc_update": 4, "svc_delete": 1, "svc_create": 2,
	"ep_scale": 12, "ep_ready": 5, "ep_replace": 5, "ep_reorder": 2,
	"secret_rotate": 5, "secret_delete": 2, "secret_create": 3, "secret_break": 1,
	"global_change": 4, "pod_term": 3, "class_change": 2,
	"renotify": 3, "advance": 6,
}

type gen struct {
	authVer       int
	seed          uint64
	tcpShared     bool
	curPrefSvc    string
	defBackendOK  map[string]bool
	defBackendSig map[string]string
	rng           *rand.Rand
	opt           GenOptions
	// current model of the cluster as the generator sees it
	objs map[string]map[string]client.Object
	// enabled keys for this run
	ingKeys, svcKeys, glbKeys []annChoice
	created                   int
	ops                       []Op
	world                     *World
	certN                     int
}

func (g *gen) pick(n int) int {
	if n <= 1 {
		return 0
	}
	return g.rng.IntN(n)
}

func (g *gen) chance(num, den int) bool { return g.rng.IntN(den) < num }

func pickStr(g *gen, s []string) string { return s[g.pick(len(s))] }

func filterKeys(all []annChoice, allow, exclude []string) []annChoice {
	var out []annChoice
	for _, a := range all {
		ok := allow == nil
		for _, k := range allow {
			if k == a.Key {
				ok = true
			}
		}
		for _, k := range exclude {
			if k == a.Key {
				ok = false
			}
		}
		if ok {
			out = append(out, a)
		}
	}
	return out
}

func (g *gen) subset(all []annChoice, n int) []annChoice {
	if n <= 0 || n >= len(all) {
		return all
	}
	idx := g.rng.Perm(len(all))[:n]
	sort.Ints(idx)
	out := make([]annChoice, 0, n)
	for _, i := range idx {
		out = append(out, all[i])
	}
	return out
}

func (g *gen) put(o client.Object) {
	k := kindOf(o)
	if g.objs[k] == nil {
		g.objs[k] = map[string]client.Object{}
	}
	g.objs[k][objKey(o)] = o
}

func (g *gen) del(kind, key string) {
	delete(g.objs[kind], key)
	if kind == KIngress {
		// (no_new_default_backend: re-creating the ingress later would *start* to declare it again)
		delete(g.defBackendOK, key)
	}
}

func (g *gen) keys(kind string) []string { return sortedKeys(g.objs[kind]) }

// sanitize enforces the Avoid constraints on an ingress about to be emitted.
func (g *gen) sanitize(o client.Object) {
	ing, ok := o.(*networking.Ingress)
	if !ok {
		return
	}
	key := objKey(ing)
	// (constraints that take hosts away come first: the others look at what is left)
	if g.opt.Avoid["ingress_hosts_fixed"] {
		// KF-ingress-newer-than-notification: an update never makes an ingress name a host it did not name before
		if prev, _ := g.objs[KIngress][key].(*networking.Ingress); prev != nil && g.world == nil {
			// (a host of a TCP service is another resource than the HTTP host of the same name: an update does
			// not move an ingress between the two kinds, or between ports)
			if pv, nv := prev.Annotations[annPrefix+"tcp-service-port"], ing.Annotations[annPrefix+"tcp-service-port"]; pv != nv {
				if ing.Annotations == nil {
					ing.Annotations = map[string]string{}
				}
				if pv == "" {
					delete(ing.Annotations, annPrefix+"tcp-service-port")
				} else {
					ing.Annotations[annPrefix+"tcp-service-port"] = pv
				}
			}
			had := map[string]bool{}
			for _, r := range prev.Spec.Rules {
				had[r.Host] = true
			}
			for _, t := range prev.Spec.TLS {
				for _, h := range t.Hosts {
					had[h] = true
				}
			}
			var rules []networking.IngressRule
			for _, r := range ing.Spec.Rules {
				if had[r.Host] {
					rules = append(rules, r)
				}
			}
			ing.Spec.Rules = rules
			for i := range ing.Spec.TLS {
				var hs []string
				for _, h := range ing.Spec.TLS[i].Hosts {
					if had[h] {
						hs = append(hs, h)
					}
				}
				ing.Spec.TLS[i].Hosts = hs
			}
		}
	}
	if _, tcp := ing.Annotations[annPrefix+"tcp-service-port"]; tcp {
		// tcp services only accept the root path
		for i := range ing.Spec.Rules {
			if ing.Spec.Rules[i].HTTP == nil {
				continue
			}
			ps := ing.Spec.Rules[i].HTTP.Paths
			if len(ps) > 1 {
				ps = ps[:1]
			}
			for j := range ps {
				ps[j].Path = "/"
			}
			ing.Spec.Rules[i].HTTP.Paths = ps
		}
	}
	if _, tcp := ing.Annotations[annPrefix+"tcp-service-port"]; tcp && g.opt.Avoid["tcp_not_default_service"] && ing.Namespace == "a" {
		// KF-default-backend-shared-with-tcp-service: a TCP service never targets the service that
		// --default-backend-service may name (a/s1)
		for i := range ing.Spec.Rules {
			if ing.Spec.Rules[i].HTTP == nil {
				continue
			}
			for j := range ing.Spec.Rules[i].HTTP.Paths {
				if b := ing.Spec.Rules[i].HTTP.Paths[j].Backend.Service; b != nil && b.Name == "s1" {
					b.Name = "s2"
				}
			}
		}
		if db := ing.Spec.DefaultBackend; db != nil && db.Service != nil && db.Service.Name == "s1" {
			db.Service.Name = "s2"
		}
	}
	if g.opt.Avoid["no_upper_case_prefix"] {
		// KF-begin-case-overlap: a prefix rule with upper-case letters is not seen as nested in a
		// begin rule; such paths are declared with another type (or lower-cased)
		ptAnn := strings.ToLower(ing.Annotations[annPrefix+"path-type"])
		for i := range ing.Spec.Rules {
			if ing.Spec.Rules[i].HTTP == nil {
				continue
			}
			for j := range ing.Spec.Rules[i].HTTP.Paths {
				p := &ing.Spec.Rules[i].HTTP.Paths[j]
				if p.Path == strings.ToLower(p.Path) {
					continue
				}
				if p.PathType != nil && *p.PathType == networking.PathTypePrefix {
					pt := networking.PathTypeImplementationSpecific
					p.PathType = &pt
				}
				if (p.PathType == nil || *p.PathType == networking.PathTypeImplementationSpecific) && ptAnn == "prefix" {
					p.Path = strings.ToLower(p.Path)
				}
			}
		}
	}
	if g.opt.Avoid["no_dup_paths"] {
		taken := map[string]bool{}
		for k, o := range g.objs[KIngress] {
			if k == key {
				continue
			}
			for _, r := range o.(*networking.Ingress).Spec.Rules {
				if r.HTTP == nil {
					continue
				}
				for _, p := range r.HTTP.Paths {
					taken[r.Host+"#"+p.Path] = true
				}
			}
			if o.(*networking.Ingress).Spec.DefaultBackend != nil {
				taken["#/"] = true // spec.defaultBackend declares the root of the default host
			}
		}
		if ing.Spec.DefaultBackend != nil && taken["#/"] {
			ing.Spec.DefaultBackend = nil
		}
		for i := range ing.Spec.Rules {
			r := &ing.Spec.Rules[i]
			if r.HTTP == nil {
				continue
			}
			var keep []networking.HTTPIngressPath
			for _, p := range r.HTTP.Paths {
				if !taken[r.Host+"#"+p.Path] {
					keep = append(keep, p)
					taken[r.Host+"#"+p.Path] = true // also inside one ingress
				}
			}
			r.HTTP.Paths = keep
		}
	}
	if g.opt.Avoid["dup_paths_exclusive_service"] {
		// The narrowed form of no_dup_paths (KF-owner-change-existing-backend needs the new owner's
		// backend to exist already): a host/path may be declared twice as long as the service behind
		// every declaration of a duplicated path is used by nothing else, so that an owner change
		// always creates the new owner's backend. spec.defaultBackend stays unique.
		svcOf := func(p networking.HTTPIngressPath) string {
			if p.Backend.Service == nil {
				return ""
			}
			return p.Backend.Service.Name + ":" + p.Backend.Service.Port.Name + fmt.Sprint(p.Backend.Service.Port.Number)
		}
		claims := map[string][]string{} // host#path -> services of the other ingresses' declarations
		uses := map[string]int{}        // ns-local service -> number of declarations in other ingresses of the namespace
		otherDefault := false
		for k, o := range g.objs[KIngress] {
			if k == key {
				continue
			}
			oi := o.(*networking.Ingress)
			if oi.Spec.DefaultBackend != nil {
				otherDefault = true
				if oi.Namespace == ing.Namespace && oi.Spec.DefaultBackend.Service != nil {
					uses[oi.Spec.DefaultBackend.Service.Name+":"+oi.Spec.DefaultBackend.Service.Port.Name+fmt.Sprint(oi.Spec.DefaultBackend.Service.Port.Number)] += 2
				}
			}
			for _, r := range oi.Spec.Rules {
				if r.HTTP == nil {
					continue
				}
				for _, p := range r.HTTP.Paths {
					claims[r.Host+"#"+p.Path] = append(claims[r.Host+"#"+p.Path], oi.Namespace+"/"+svcOf(p))
					if oi.Namespace == ing.Namespace {
						uses[svcOf(p)]++
					}
				}
			}
		}
		if ing.Spec.DefaultBackend != nil && otherDefault {
			ing.Spec.DefaultBackend = nil
		}
		// services that back a declaration of a path somebody else declares too must stay exclusive
		exclusive := map[string]bool{}
		for hp, svcs := range claims {
			if len(svcs) > 1 {
				for _, s := range svcs {
					exclusive[s] = true
				}
			}
			_ = hp
		}
		own := map[string]int{}
		if ing.Spec.DefaultBackend != nil && ing.Spec.DefaultBackend.Service != nil {
			own[ing.Spec.DefaultBackend.Service.Name+":"+ing.Spec.DefaultBackend.Service.Port.Name+fmt.Sprint(ing.Spec.DefaultBackend.Service.Port.Number)] += 2
		}
		for _, r := range ing.Spec.Rules {
			if r.HTTP != nil {
				for _, p := range r.HTTP.Paths {
					own[svcOf(p)]++
				}
			}
		}
		seen := map[string]bool{}
		for i := range ing.Spec.Rules {
			r := &ing.Spec.Rules[i]
			if r.HTTP == nil {
				continue
			}
			var keep []networking.HTTPIngressPath
			for _, p := range r.HTTP.Paths {
				hp := r.Host + "#" + p.Path
				sv := svcOf(p)
				ok := !seen[hp] && !exclusive[ing.Namespace+"/"+sv]
				if ok && len(claims[hp]) > 0 {
					// a second declaration: one other claimant at most, and both services used by nothing else
					ok = len(claims[hp]) == 1 && uses[sv] == 0 && own[sv] == 1
					if ok {
						o := claims[hp][0]
						if i := strings.Index(o, "/"); i >= 0 && o[:i] == ing.Namespace {
							ok = uses[o[i+1:]] == 1 && own[o[i+1:]] == 0
						} else {
							ok = false // the other claimant's namespace is not counted here
						}
					}
				}
				if ok {
					keep = append(keep, p)
					seen[hp] = true
				} else {
					own[sv]--
				}
			}
			r.HTTP.Paths = keep
		}
	}
	if g.opt.Avoid["tcp_tls_not_shared"] {
		if _, has := ing.Annotations[annPrefix+"tcp-service-port"]; has {
			// a TCP port is either shared by several ingresses (then without spec.tls) or
			// carries TLS (then it belongs to one ingress); the mode is drawn per run
			if g.tcpShared {
				ing.Spec.TLS = nil
			} else {
				for i, nn := range ingNames {
					if nn[0] == ing.Namespace && nn[1] == ing.Name {
						ing.Annotations[annPrefix+"tcp-service-port"] = fmt.Sprint(7000 + i)
					}
				}
			}
		}
	}
	if g.opt.Avoid["frontend_auth_exact_paths"] && ing.Annotations[annPrefix+"auth-external-placement"] == "frontend" {
		// frontend-placed authentication rules only match the declared path itself
		// (KF-frontend-auth-subpaths): such ingresses declare exact paths only
		for i := range ing.Spec.Rules {
			if ing.Spec.Rules[i].HTTP == nil {
				continue
			}
			for j := range ing.Spec.Rules[i].HTTP.Paths {
				pt := networking.PathTypeExact
				ing.Spec.Rules[i].HTTP.Paths[j].PathType = &pt
			}
		}
	}
	if g.opt.Avoid["frontend_auth_no_alias"] && ing.Annotations[annPrefix+"auth-external-placement"] == "frontend" {
		// KF-frontend-auth-alias: frontend placed rules do not know the aliases of the host
		delete(ing.Annotations, annPrefix+"server-alias")
		delete(ing.Annotations, annPrefix+"server-alias-regex")
	}
	if g.opt.Avoid["frontend_auth_host_exclusive"] {
		// frontend placement is applied per host from the merged annotations of every ingress
		// that names the host (KF-frontend-auth-host-scoped): a frontend-placed ingress shares
		// its hosts with nobody
		frontend := func(i *networking.Ingress) bool {
			return i.Annotations[annPrefix+"auth-external-placement"] == "frontend"
		}
		claimedAny, claimedFront := map[string]bool{}, map[string]bool{}
		for k, o := range g.objs[KIngress] {
			if k == key {
				continue
			}
			oi := o.(*networking.Ingress)
			mark := func(h string) {
				claimedAny[h] = true
				if frontend(oi) {
					claimedFront[h] = true
				}
			}
			for _, r := range oi.Spec.Rules {
				mark(r.Host)
			}
			for _, t := range oi.Spec.TLS {
				for _, h := range t.Hosts {
					mark(h)
				}
			}
		}
		taken := claimedFront
		if frontend(ing) {
			taken = claimedAny
		}
		var rules []networking.IngressRule
		for _, r := range ing.Spec.Rules {
			if !taken[r.Host] {
				rules = append(rules, r)
			}
		}
		ing.Spec.Rules = rules
		for i := range ing.Spec.TLS {
			var hs []string
			for _, h := range ing.Spec.TLS[i].Hosts {
				if !taken[h] {
					hs = append(hs, h)
				}
			}
			ing.Spec.TLS[i].Hosts = hs
		}
	}
	if g.opt.Avoid["no_new_default_backend"] {
		// an ingress may keep the spec.defaultBackend it had in the initial world as long as nothing that
		// decides its selection changes (becoming selected later is a new start as well)
		sig := "class:" + ing.Annotations["kubernetes.io/ingress.class"] + "/"
		if ing.Spec.IngressClassName != nil {
			sig += *ing.Spec.IngressClassName
		}
		if g.world != nil {
			if ing.Spec.DefaultBackend != nil {
				g.defBackendOK[key] = true
				g.defBackendSig[key] = sig
			}
		} else if ing.Spec.DefaultBackend != nil && (!g.defBackendOK[key] || g.defBackendSig[key] != sig) {
			ing.Spec.DefaultBackend = nil
			delete(g.defBackendOK, key)
		} else if ing.Spec.DefaultBackend == nil {
			delete(g.defBackendOK, key) // it stopped declaring one: declaring it again would be a new start
		}
	}
	// (last: it looks at the hosts the other constraints left)
	if g.opt.Avoid["unique_host_claims"] {
		hosts := map[string]bool{}
		for _, r := range ing.Spec.Rules {
			hosts[r.Host] = true
		}
		for _, t := range ing.Spec.TLS {
			for _, h := range t.Hosts {
				hosts[h] = true
			}
		}
		if ing.Spec.DefaultBackend != nil {
			hosts[""] = true
		}
		for _, k := range []string{"redirect-from", "redirect-from-regex", "server-alias", "server-alias-regex"} {
			if _, has := ing.Annotations[annPrefix+k]; !has {
				continue
			}
			if len(hosts) != 1 {
				delete(ing.Annotations, annPrefix+k)
				continue
			}
			v := "claim-" + ing.Namespace + "-" + ing.Name + ".local"
			if strings.HasSuffix(k, "regex") {
				v = "^claim-" + ing.Namespace + "-" + ing.Name + "[0-9]+\\.local$"
			}
			ing.Annotations[annPrefix+k] = v
		}
	}
}

func (g *gen) emit(o client.Object, note string) {
	g.sanitize(o)
	g.put(o)
	if g.world != nil {
		g.world.Objects = append(g.world.Objects, wobj(o))
		return
	}
	g.ops = append(g.ops, applyOp(o, note))
}

func (g *gen) emitDelete(kind, key, note string) {
	g.del(kind, key)
	g.ops = append(g.ops, deleteOp(kind, key, note))
}

var svcDefs = []struct {
	ns, name string
	ports    []portSpec
}{
	{"a", "s1", []portSpec{{"http", 80, "8080"}}},
	{"a", "s2", []portSpec{{"http", 80, "8080"}, {"metrics", 9090, "mport"}}},
	{"b", "s1", []portSpec{{"http", 80, "8080"}}},
	{"b", "s3", []portSpec{{"", 80, "8081"}}},
	// used by sparse worlds only
	{"a", "s4", []portSpec{{"http", 80, "8080"}}},
	{"a", "s5", []portSpec{{"http", 80, "8080"}}},
	{"b", "s4", []portSpec{{"http", 80, "8080"}}},
	{"b", "s5", []portSpec{{"http", 80, "8080"}}},
}

const denseSvcs = 4

func svcIndex(ns, name string) int {
	for i, d := range svcDefs {
		if d.ns == ns && d.name == name {
			return i
		}
	}
	return 0
}

func (g *gen) genService(i int) *api.Service {
	d := svcDefs[i]
	ann := map[string]string{}
	den := 5
	if g.opt.SvcAnnChance > 0 {
		den = g.opt.SvcAnnChance
	}
	for _, k := range g.svcKeys {
		if g.chance(1, den) {
			ann[annPrefix+k.Key] = pickStr(g, k.Values)
		}
	}
	labels := map[string]string{"app": d.name}
	return mkService(d.ns, d.name, ann, labels, d.ports)
}

// genEndpoints builds the Endpoints (and pods) of service i with n addresses.
func (g *gen) genEndpoints(i int, n int) (*api.Endpoints, []*api.Pod) {
	d := svcDefs[i]
	var addrs []epAddr
	var pods []*api.Pod
	used := map[int]bool{}
	for len(addrs) < n {
		k := 1 + g.pick(7)
		if used[k] {
			continue
		}
		used[k] = true
		ip := fmt.Sprintf("10.0.%d.%d", i+1, k)
		pod := fmt.Sprintf("%s-%d", d.name, k)
		ready := !g.chance(1, 6)
		addrs = append(addrs, epAddr{IP: ip, Pod: pod, Ready: ready})
	}
	sort.Slice(addrs, func(x, y int) bool { return addrs[x].IP < addrs[y].IP })
	var ports []epPort
	for _, p := range d.ports {
		num := 8080
		switch p.Target {
		case "8080":
			num = 8080
		case "8081":
			num = 8081
		case "mport":
			num = 9100
		}
		ports = append(ports, epPort{Name: p.Name, Port: num})
	}
	for _, a := range addrs {
		lbl := map[string]string{"app": d.name, "v": fmt.Sprint(1 + g.pick(2))}
		if g.chance(1, 4) {
			delete(lbl, "v") // a pod outside every blue/green group
		}
		var cports []epPort
		for _, p := range ports {
			n := p.Name
			if n == "metrics" {
				n = "mport"
			}
			cports = append(cports, epPort{Name: n, Port: p.Port})
		}
		pods = append(pods, mkPod(d.ns, a.Pod, a.IP, lbl, false, cports))
	}
	return mkEndpoints(d.ns, d.name, addrs, ports), pods
}

func (g *gen) nextCert() certPair {
	cs := certs()
	c := cs[g.certN%len(cs)]
	g.certN++
	return c
}

func (g *gen) svcNamesIn(ns string) []string {
	var out []string
	for i, d := range svcDefs {
		if i >= denseSvcs && !g.opt.Sparse {
			break
		}
		if d.ns == ns {
			out = append(out, d.name)
		}
	}
	return out
}

func (g *gen) genPath(ns string) pathSpec {
	svcs := g.svcNamesIn(ns)
	svc := pickStr(g, svcs)
	if g.opt.Sparse && g.curPrefSvc != "" && !g.chance(1, 5) {
		svc = g.curPrefSvc
	}
	if g.chance(1, 12) {
		svc = "nosvc"
	}
	d := svcDefs[svcIndex(ns, svc)]
	port := "80"
	switch g.pick(6) {
	case 0:
		if d.ports[0].Name != "" {
			port = d.ports[0].Name
		}
	case 1:
		if len(d.ports) > 1 {
			port = fmt.Sprint(d.ports[1].Port)
		}
	case 2:
		if g.chance(1, 3) {
			port = "81" // not found
		}
	}
	pt := pickStr(g, []string{"", "Prefix", "Exact", "ImplementationSpecific", "Prefix", ""})
	return pathSpec{Path: pickStr(g, g.opt.Paths), PathType: pt, Svc: svc, Port: port}
}

func (g *gen) genAnnotations(cur map[string]string) map[string]string {
	ann := map[string]string{}
	for k, v := range cur {
		if strings.HasPrefix(k, annPrefix) {
			continue
		}
		ann[k] = v
	}
	den := g.opt.AnnChance
	if den == 0 {
		den = 4
	}
	for _, k := range g.ingKeys {
		if g.chance(1, den) {
			ann[annPrefix+k.Key] = pickStr(g, k.Values)
		}
	}
	return ann
}

func (g *gen) classFor(ann map[string]string) *string {
	// class membership: mostly ours
	delete(ann, "kubernetes.io/ingress.class")
	ours, foreign, dangling := ingressClassName, "other", "nonexistent"
	if g.opt.NoForeignClass {
		if g.chance(1, 2) {
			ann["kubernetes.io/ingress.class"] = ingressClassName
			return nil
		}
		return &ours
	}
	switch g.pick(12) {
	case 0:
		return &foreign
	case 1:
		ann["kubernetes.io/ingress.class"] = "other"
		return nil
	case 2:
		return nil
	case 3:
		return &dangling
	case 4, 5, 6:
		ann["kubernetes.io/ingress.class"] = ingressClassName
		return nil
	case 7:
		ann["kubernetes.io/ingress.class"] = ingressClassName
		return &foreign
	}
	return &ours
}

func (g *gen) genIngress(ns, name string, created int, cur *networking.Ingress) *networking.Ingress {
	g.curPrefSvc = ""
	if g.opt.Sparse {
		svcs := g.svcNamesIn(ns)
		h := 0
		for _, c := range name {
			h += int(c)
		}
		g.curPrefSvc = svcs[h%len(svcs)]
	}
	var curAnn map[string]string
	if cur != nil {
		curAnn = cur.Annotations
	}
	ann := g.genAnnotations(curAnn)
	class := g.classFor(ann)
	nrules := 1 + g.pick(2)
	var rules []ruleSpec
	ownHost := ""
	if g.opt.Sparse {
		nrules = 1
	}
	if g.opt.Sparse && !g.opt.NoOwnHost {
		for i, nn := range ingNames {
			if nn[0] == ns && nn[1] == name {
				ownHost = fmt.Sprintf("h%d.local", i+1)
			}
		}
	}
	for i := 0; i < nrules; i++ {
		r := ruleSpec{Host: pickStr(g, g.opt.Hosts)}
		if ownHost != "" && (g.opt.OwnHostAlways || !g.chance(1, 8)) {
			r.Host = ownHost
		}
		np := 1 + g.pick(3)
		for j := 0; j < np; j++ {
			r.Paths = append(r.Paths, g.genPath(ns))
		}
		rules = append(rules, r)
	}
	var tlss []tlsSpec
	if !g.opt.NoTLS && g.chance(1, 2) {
		nt := 1 + g.pick(2)
		for i := 0; i < nt; i++ {
			choices := []string{"tls1", "tls2", "tls1", "", "bad", "missing", "b/tls1"}
			if len(g.opt.TLSSecrets) > 0 {
				choices = g.opt.TLSSecrets
			}
			t := tlsSpec{Secret: pickStr(g, choices)}
			nh := 1 + g.pick(2)
			for j := 0; j < nh; j++ {
				h := pickStr(g, g.opt.Hosts)
				if ownHost != "" && (g.opt.OwnHostAlways || !g.chance(1, 8)) {
					h = ownHost
				}
				if h != "" {
					t.Hosts = append(t.Hosts, h)
				}
			}
			if len(t.Hosts) > 0 {
				tlss = append(tlss, t)
			}
		}
	}
	var def *pathSpec
	if !g.opt.NoDefaultBackend && g.chance(1, 8) {
		p := g.genPath(ns)
		def = &p
	}
	ing := mkIngress(ns, name, created, ann, class, rules, tlss, def)
	if cur != nil {
		ing.UID = cur.UID
		ing.CreationTimestamp = cur.CreationTimestamp
		ing.Generation = cur.Generation + 1
	}
	return ing
}

var ingNames = [][2]string{{"a", "ing1"}, {"a", "ing2"}, {"a", "ing3"}, {"b", "ing1"}, {"b", "ing2"}}

func (g *gen) genGlobal(cur map[string]string, nchanges int) map[string]string {
	data := map[string]string{}
	for k, v := range cur {
		data[k] = v
	}
	for i := 0; i < nchanges && len(g.glbKeys) > 0; i++ {
		k := g.glbKeys[g.pick(len(g.glbKeys))]
		if _, has := data[k.Key]; has && g.chance(1, 3) {
			delete(data, k.Key)
		} else {
			data[k.Key] = pickStr(g, k.Values)
		}
	}
	if _, has := data["auth-proxy"]; has && g.opt.Avoid["auth_proxy_range_wide"] {
		// KF-auth-proxy-range-first-come: the range never runs out of ports
		data["auth-proxy"] = "_front__auth:14415-14440"
	}
	return data
}

// GenerateRun builds world and history for a profile.
func GenerateRun(seed uint64, opt GenOptions) (*World, []Op) {
	g := &gen{rng: rand.New(rand.NewPCG(seed, 0x68617073696d)), opt: opt, objs: map[string]map[string]client.Object{}, defBackendOK: map[string]bool{}, defBackendSig: map[string]string{}}
	if g.opt.Avoid == nil {
		_, g.opt.Avoid = avoidFlags()
	}
	if len(g.opt.IgnoreAvoid) > 0 {
		av := map[string]bool{}
		for k, v := range g.opt.Avoid {
			av[k] = v
		}
		for _, k := range g.opt.IgnoreAvoid {
			delete(av, k)
		}
		g.opt.Avoid = av
	}
	if len(g.opt.ExtraAvoid) > 0 {
		av := map[string]bool{}
		for k, v := range g.opt.Avoid {
			av[k] = v
		}
		for _, k := range g.opt.ExtraAvoid {
			av[k] = true
		}
		g.opt.Avoid = av
	}
	g.tcpShared = seed%2 == 0
	g.seed = seed
	if g.opt.Hosts == nil {
		g.opt.Hosts = defaultHosts
		if g.opt.Sparse {
			g.opt.Hosts = []string{"h1.local", "h2.local", "h3.local", "h4.local", "h5.local", "*.wild.local", ""}
		}
	}
	if g.opt.Paths == nil {
		g.opt.Paths = defaultPaths
	}
	if g.opt.W == nil {
		g.opt.W = defaultWeights
	}
	if _, set := g.opt.W["tcpcm_change"]; g.opt.TCPConfigMap && !set {
		w := map[string]int{"tcpcm_change": 5}
		for k, v := range g.opt.W {
			w[k] = v
		}
		g.opt.W = w
	}
	if g.opt.MaxIngresses == 0 {
		g.opt.MaxIngresses = 5
	}
	if g.opt.MaxOps == 0 && !g.opt.NoOps {
		g.opt.MinOps, g.opt.MaxOps = 8, 30
	}
	n := g.opt.KeysPerRun
	if n == 0 {
		n = 7
	}
	if g.opt.Avoid["no_external_auth"] {
		opt.ExcludeIngressKeys = append(append([]string{}, opt.ExcludeIngressKeys...), "auth-url", "oauth", "auth-external-placement")
	}
	if g.opt.Avoid["no_case_variant_paths"] {
		var ps []string
		for _, p := range g.opt.Paths {
			if p == strings.ToLower(p) {
				ps = append(ps, p)
			}
		}
		g.opt.Paths = ps
	}
	if g.opt.Avoid["no_partial_segment_begin"] {
		g.opt.Paths = dropPartialSegmentPaths(g.opt.Paths)
	}
	if g.opt.Avoid["no_app_root"] {
		opt.ExcludeIngressKeys = append(append([]string{}, opt.ExcludeIngressKeys...), "app-root")
	}
	if g.opt.Avoid["no_header_match"] {
		opt.ExcludeIngressKeys = append(append([]string{}, opt.ExcludeIngressKeys...), "http-header-match", "http-header-match-regex")
	}
	g.ingKeys = g.subset(filterKeys(ingressAnnotations, opt.IngressKeys, append(append([]string{}, opt.ExcludeIngressKeys...), opt.ForceIngressKeys...)), n)
	if len(opt.ForceIngressKeys) > 0 {
		g.ingKeys = append(g.ingKeys, filterKeys(ingressAnnotations, opt.ForceIngressKeys, opt.ExcludeIngressKeys)...)
	}
	for i, k := range g.ingKeys {
		if v, ok := opt.ValueOverrides[k.Key]; ok {
			g.ingKeys[i] = annChoice{Key: k.Key, Values: v}
		}
	}
	svcTable := serviceAnnotations
	if opt.ServiceKeys != nil {
		// keys only a profile that names them gets (resource references on Service annotations, C09)
		svcTable = append(append([]annChoice{}, serviceAnnotations...), serviceAnnotationsByName...)
	}
	g.svcKeys = g.subset(filterKeys(svcTable, opt.ServiceKeys, nil), 2)
	if g.opt.Avoid["no_strict_host"] {
		opt.ExcludeGlobalKeys = append(append([]string{}, opt.ExcludeGlobalKeys...), "strict-host")
	}
	g.glbKeys = g.subset(filterKeys(globalKeys, opt.GlobalKeys, append(append([]string{}, opt.ExcludeGlobalKeys...), opt.ForceGlobalKeys...)), 4)
	if len(opt.ForceGlobalKeys) > 0 {
		g.glbKeys = append(g.glbKeys, filterKeys(globalKeys, opt.ForceGlobalKeys, opt.ExcludeGlobalKeys)...)
	}

	g.world = &World{DNS: map[string][]string{"authhost.local": {"10.7.7.7"}, "ext.local": {"10.6.6.6", "10.6.6.7"}}}
	// ---- initial world
	for i := range svcDefs {
		if i >= denseSvcs && !g.opt.Sparse {
			break
		}
		if g.chance(5, 6) {
			g.emit(g.genService(i), "")
			ep, pods := g.genEndpoints(i, g.pick(4))
			for _, p := range pods {
				g.emit(p, "")
			}
			g.emit(ep, "")
		}
	}
	// a service only --default-backend-service may name (never used by ingress rules)
	g.emit(mkService("a", "dflt", nil, map[string]string{"app": "dflt"}, []portSpec{{"http", 80, "8080"}}), "")
	g.emit(mkPod("a", "dflt-1", "10.0.9.1", map[string]string{"app": "dflt"}, false, []epPort{{"http", 8080}}), "")
	g.emit(mkEndpoints("a", "dflt", []epAddr{{"10.0.9.1", "dflt-1", true}}, []epPort{{"http", 8080}}), "")
	g.emit(mkTLSSecret("a", "tls1", g.nextCert()), "")
	if g.chance(3, 4) {
		g.emit(mkTLSSecret("a", "tls2", g.nextCert()), "")
	}
	g.emit(mkTLSSecret("b", "tls1", g.nextCert()), "")
	g.emit(mkOpaqueSecret("a", "bad", map[string][]byte{api.TLSCertKey: []byte("garbage"), api.TLSPrivateKeyKey: []byte("garbage")}), "")
	g.emit(mkOpaqueSecret("a", "auth", map[string][]byte{"auth": []byte("usr1::clear1\nusr2::clear2\n")}), "")
	g.emit(mkOpaqueSecret("b", "auth", map[string][]byte{"auth": []byte("usrb::clearb\n")}), "")
	certs()
	g.emit(mkOpaqueSecret("a", "ca", map[string][]byte{"ca.crt": caPair.Crt}), "")
	g.emit(mkOpaqueSecret("b", "ca", map[string][]byte{"ca.crt": caPair.Crt}), "")
	g.emit(mkIngressClass(ingressClassName, controllerName, ""), "")
	if g.chance(1, 2) {
		g.emit(mkIngressClass("other", g.foreignController(), ""), "")
	}
	g.emit(mkConfigMap(globalConfigMapName, g.genGlobal(g.opt.InitialGlobal, g.pick(4))), "")
	if g.opt.TCPConfigMap && g.chance(2, 3) {
		g.emit(mkConfigMap(tcpConfigMapName, g.genTCPServices(nil, 1+g.pick(3))), "")
	}
	ning := 1 + g.pick(g.opt.MaxIngresses)
	for i := 0; i < ning; i++ {
		nn := ingNames[g.pick(len(ingNames))]
		if g.opt.OnlyNS != "" && nn[0] != g.opt.OnlyNS {
			continue
		}
		if g.objs[KIngress][nn[0]+"/"+nn[1]] != nil {
			continue
		}
		g.created++
		// creation timestamps collide on purpose sometimes
		ct := g.created
		if g.chance(1, 4) {
			ct = g.created - 1
		}
		g.emit(g.genIngress(nn[0], nn[1], ct, nil), "")
	}
	world := g.world
	g.world = nil

	// ---- history
	nops := g.opt.MinOps + g.pick(g.opt.MaxOps-g.opt.MinOps+1)
	var wnames []string
	total := 0
	for _, k := range sortedKeys(g.opt.W) {
		if g.opt.W[k] > 0 {
			wnames = append(wnames, k)
			total += g.opt.W[k]
		}
	}
	sinceQ := 0
	for len(g.ops) < nops && total > 0 {
		x := g.pick(total)
		var name string
		for _, k := range wnames {
			if x < g.opt.W[k] {
				name = k
				break
			}
			x -= g.opt.W[k]
		}
		before := len(g.ops)
		g.genOp(name)
		if len(g.ops) > before {
			sinceQ++
			if g.opt.QuiesceEvery > 0 && g.chance(1, g.opt.QuiesceEvery) {
				g.ops = append(g.ops, Op{Type: "quiesce"})
				sinceQ = 0
			}
		}
	}
	g.ops = append(g.ops, Op{Type: "quiesce", Note: "final"})
	return world, g.ops
}

func (g *gen) genOp(name string) {
	switch name {
	case "ing_create":
		nn := ingNames[g.pick(len(ingNames))]
		if g.opt.OnlyNS != "" && nn[0] != g.opt.OnlyNS {
			return
		}
		key := nn[0] + "/" + nn[1]
		if g.objs[KIngress][key] != nil || len(g.objs[KIngress]) >= g.opt.MaxIngresses {
			return
		}
		g.created++
		ct := g.created
		if g.chance(1, 4) {
			ct--
		}
		// a re-created ingress gets a *new* creation time: it may lose ownership of a duplicated path
		g.emit(g.genIngress(nn[0], nn[1], 1000+ct, nil), "create")
	case "ing_delete":
		keys := g.keys(KIngress)
		if len(keys) == 0 {
			return
		}
		g.emitDelete(KIngress, keys[g.pick(len(keys))], "")
	case "ing_update":
		keys := g.keys(KIngress)
		if len(keys) == 0 {
			return
		}
		cur := g.objs[KIngress][keys[g.pick(len(keys))]].(*networking.Ingress)
		g.emit(g.genIngress(cur.Namespace, cur.Name, 0, cur), "spec")
	case "ing_ann":
		keys := g.keys(KIngress)
		if len(keys) == 0 || len(g.ingKeys) == 0 {
			return
		}
		cur := g.objs[KIngress][keys[g.pick(len(keys))]].(*networking.Ingress).DeepCopy()
		if cur.Annotations == nil {
			cur.Annotations = map[string]string{}
		}
		k := g.ingKeys[g.pick(len(g.ingKeys))]
		if _, has := cur.Annotations[annPrefix+k.Key]; has && g.chance(1, 2) {
			delete(cur.Annotations, annPrefix+k.Key)
		} else {
			cur.Annotations[annPrefix+k.Key] = pickStr(g, k.Values)
		}
		g.emit(cur, "annotation "+k.Key)
	case "svc_update":
		var keys []string
		for _, k := range g.keys(KService) {
			ns, name, _ := strings.Cut(k, "/")
			if i := svcIndex(ns, name); svcDefs[i].ns == ns && svcDefs[i].name == name {
				keys = append(keys, k) // (a/dflt is not regenerated)
			}
		}
		if len(keys) == 0 {
			return
		}
		cur := g.objs[KService][keys[g.pick(len(keys))]].(*api.Service)
		ns := g.genService(svcIndex(cur.Namespace, cur.Name))
		ns.UID = cur.UID
		ns.Generation = cur.Generation
		if g.chance(1, 3) {
			// spec change: drop the second port
			if len(ns.Spec.Ports) > 1 && g.chance(1, 2) {
				ns.Spec.Ports = ns.Spec.Ports[:1]
			}
		} else {
			ns.Spec = *cur.Spec.DeepCopy()
		}
		if !reflect.DeepEqual(ns.Spec, cur.Spec) {
			ns.Generation++ // the API server bumps the generation on every spec change
		}
		g.emit(ns, "service")
	case "svc_delete":
		keys := g.keys(KService)
		if len(keys) == 0 {
			return
		}
		key := keys[g.pick(len(keys))]
		g.emitDelete(KService, key, "")
		if g.objs[KEndpoints][key] != nil {
			g.emitDelete(KEndpoints, key, "with service")
		}
	case "svc_create":
		i := g.pick(len(svcDefs))
		if !g.opt.Sparse {
			i = g.pick(denseSvcs)
		}
		key := svcDefs[i].ns + "/" + svcDefs[i].name
		if g.objs[KService][key] != nil {
			return
		}
		g.emit(g.genService(i), "create")
		ep, pods := g.genEndpoints(i, 1+g.pick(3))
		for _, p := range pods {
			g.emit(p, "create") // pods exist before the endpoints controller lists them
		}
		g.emit(ep, "create")
	case "ep_scale", "ep_replace", "ep_ready", "ep_reorder":
		keys := g.keys(KEndpoints)
		if len(keys) == 0 {
			return
		}
		cur := g.objs[KEndpoints][keys[g.pick(len(keys))]].(*api.Endpoints)
		if name == "ep_reorder" {
			// the same addresses in another order (what --sort-endpoints-by=endpoint passes on)
			if len(cur.Subsets) == 0 || len(cur.Subsets[0].Addresses) < 2 {
				return
			}
			ne := cur.DeepCopy()
			a := ne.Subsets[0].Addresses
			k := 1 + g.pick(len(a)-1)
			ne.Subsets[0].Addresses = append(append([]api.EndpointAddress{}, a[k:]...), a[:k]...)
			g.emit(ne, "reorder")
			return
		}
		i := svcIndex(cur.Namespace, cur.Name)
		var n int
		curN := 0
		for _, ss := range cur.Subsets {
			curN += len(ss.Addresses) + len(ss.NotReadyAddresses)
		}
		switch name {
		case "ep_scale":
			n = g.pick(6)
		default:
			n = curN
			if n == 0 {
				n = 1
			}
		}
		if name == "ep_ready" && curN > 0 {
			ne := cur.DeepCopy()
			ss := &ne.Subsets[0]
			if len(ss.Addresses) > 0 && g.chance(1, 2) {
				ss.NotReadyAddresses = append(ss.NotReadyAddresses, ss.Addresses[0])
				ss.Addresses = ss.Addresses[1:]
			} else if len(ss.NotReadyAddresses) > 0 {
				ss.Addresses = append(ss.Addresses, ss.NotReadyAddresses[0])
				ss.NotReadyAddresses = ss.NotReadyAddresses[1:]
			} else {
				return
			}
			g.emit(ne, "readiness")
			return
		}
		ep, pods := g.genEndpoints(i, n)
		ep.UID = cur.UID
		for _, p := range pods {
			if g.objs[KPod][objKey(p)] == nil {
				g.emit(p, "pod of new endpoint")
			}
		}
		g.emit(ep, name)
	case "secret_rotate":
		if g.chance(1, 5) {
			// the users of a basic authentication secret change, nothing else does
			keys := []string{"a/auth", "b/auth", "a/auth2"}
			if cur, _ := g.objs[KSecret][keys[g.pick(len(keys))]].(*api.Secret); cur != nil && cur.Data["auth"] != nil {
				nc := cur.DeepCopy()
				g.authVer++
				nc.Data["auth"] = []byte(fmt.Sprintf("usr1::clear%d\nusr%d::clearx\n", g.authVer, g.authVer))
				g.emit(nc, "rotate users")
			}
			return
		}
		keys := []string{"a/tls1", "a/tls2", "b/tls1"}
		key := keys[g.pick(len(keys))]
		cur, _ := g.objs[KSecret][key].(*api.Secret)
		if cur == nil {
			return
		}
		if leaf := leafPEM(cur.Data[api.TLSCertKey]); leaf != nil && g.chance(1, 3) {
			// the chain changes, the leaf certificate and its key stay (an intermediate is added or dropped)
			certs()
			nc := cur.DeepCopy()
			if g.opt.Avoid["secret_no_aba"] {
				// KF-secret-read-twice-aba: a secret never returns to bytes it had before (another intermediate each time)
				nc.Data[api.TLSCertKey] = append(append([]byte{}, leaf...), g.nextCert().Crt...)
			} else if len(cur.Data[api.TLSCertKey]) > len(leaf) {
				nc.Data[api.TLSCertKey] = leaf
			} else {
				nc.Data[api.TLSCertKey] = append(append([]byte{}, leaf...), caPair.Crt...)
			}
			g.emit(nc, "rotate chain only")
			return
		}
		ns := mkTLSSecret(cur.Namespace, cur.Name, g.nextCert())
		ns.UID = cur.UID
		g.emit(ns, "rotate")
	case "secret_delete":
		keys := g.keys(KSecret)
		if len(keys) == 0 {
			return
		}
		g.emitDelete(KSecret, keys[g.pick(len(keys))], "")
	case "secret_create":
		cands := []string{"a/tls1", "a/tls2", "b/tls1", "a/auth", "a/ca", "a/missing", "a/auth2"}
		key := cands[g.pick(len(cands))]
		if g.objs[KSecret][key] != nil {
			return
		}
		ns, name, _ := strings.Cut(key, "/")
		switch {
		case strings.HasPrefix(name, "auth"):
			g.emit(mkOpaqueSecret(ns, name, map[string][]byte{"auth": []byte("usr9::clear9\n")}), "create")
		case name == "ca":
			g.emit(mkOpaqueSecret(ns, name, map[string][]byte{"ca.crt": caPair.Crt}), "create")
		default:
			g.emit(mkTLSSecret(ns, name, g.nextCert()), "create")
		}
	case "secret_break":
		cur, _ := g.objs[KSecret]["a/tls2"].(*api.Secret)
		if cur == nil {
			return
		}
		ns := mkOpaqueSecret("a", "tls2", map[string][]byte{api.TLSCertKey: []byte("broken")})
		ns.UID = cur.UID
		g.emit(ns, "malformed")
	case "global_change":
		cur, _ := g.objs[KConfigMap][globalConfigMapName].(*api.ConfigMap)
		if cur == nil {
			g.emit(mkConfigMap(globalConfigMapName, g.genGlobal(nil, 1+g.pick(2))), "create")
			return
		}
		// the global ConfigMap is never deleted: a freshly started controller refuses to
		// start without it (config.go reads it at start-up), so no reference state exists
		ncm := mkConfigMap(globalConfigMapName, g.genGlobal(cur.Data, 1+g.pick(2)))
		ncm.UID = cur.UID
		g.emit(ncm, "global config")
	case "tcpcm_change":
		cur, _ := g.objs[KConfigMap][tcpConfigMapName].(*api.ConfigMap)
		if cur == nil {
			g.emit(mkConfigMap(tcpConfigMapName, g.genTCPServices(nil, 1+g.pick(2))), "create tcp services")
			return
		}
		if g.chance(1, 8) {
			g.emitDelete(KConfigMap, tcpConfigMapName, "tcp services removed")
			return
		}
		ncm := mkConfigMap(tcpConfigMapName, g.genTCPServices(cur.Data, 1+g.pick(2)))
		ncm.UID = cur.UID
		g.emit(ncm, "tcp services")
	case "pod_vanish":
		// the pod object goes away while the Endpoints still lists its address (the endpoints controller
		// lags behind): legal and transient, only profiles that ask for it get it
		keys := g.keys(KPod)
		if len(keys) == 0 {
			return
		}
		// (all the pods of one service: a node that went away)
		victim := g.objs[KPod][keys[g.pick(len(keys))]].(*api.Pod)
		for _, k := range keys {
			if p := g.objs[KPod][k].(*api.Pod); p.Namespace == victim.Namespace && p.Labels["app"] == victim.Labels["app"] {
				g.emitDelete(KPod, k, "pod gone before its endpoint")
			}
		}
	case "pod_term":
		keys := g.keys(KPod)
		if len(keys) == 0 {
			return
		}
		cur := g.objs[KPod][keys[g.pick(len(keys))]].(*api.Pod).DeepCopy()
		if cur.DeletionTimestamp == nil {
			t := metav1.NewTime(epoch)
			cur.DeletionTimestamp = &t
			g.emit(cur, "terminating")
		} else {
			// the endpoints controller drops the address of a terminating pod before the pod object goes away
			defer g.emitDelete(KPod, objKey(cur), "terminated")
			svcName := cur.Labels["app"]
			epKey := cur.Namespace + "/" + svcName
			if ep, ok := g.objs[KEndpoints][epKey].(*api.Endpoints); ok {
				ne := ep.DeepCopy()
				changed := false
				for i := range ne.Subsets {
					ss := &ne.Subsets[i]
					filter := func(in []api.EndpointAddress) []api.EndpointAddress {
						var out []api.EndpointAddress
						for _, a := range in {
							if a.TargetRef != nil && a.TargetRef.Name == cur.Name {
								changed = true
								continue
							}
							out = append(out, a)
						}
						return out
					}
					ss.Addresses = filter(ss.Addresses)
					ss.NotReadyAddresses = filter(ss.NotReadyAddresses)
				}
				if changed {
					g.emit(ne, "address of deleted pod removed")
				}
			}
		}
	case "class_change":
		switch g.pick(4) {
		case 0:
			if g.objs[KIngressClass][ingressClassName] != nil {
				g.emitDelete(KIngressClass, ingressClassName, "our class")
			} else {
				g.emit(mkIngressClass(ingressClassName, controllerName, ""), "our class")
			}
		case 1:
			if cur, ok := g.objs[KIngressClass]["other"].(*networking.IngressClass); ok {
				n := cur.DeepCopy()
				n.Generation++
				if n.Spec.Controller == controllerName {
					n.Spec.Controller = g.foreignController()
				} else {
					n.Spec.Controller = controllerName
				}
				g.emit(n, "retarget controller")
			} else {
				g.emit(mkIngressClass("other", g.foreignController(), ""), "create")
			}
		case 2:
			if g.objs[KIngressClass]["nonexistent"] == nil {
				g.emit(mkIngressClass("nonexistent", controllerName, ""), "dangling class appears")
			} else {
				g.emitDelete(KIngressClass, "nonexistent", "")
			}
		case 3:
			if cur, ok := g.objs[KIngressClass][ingressClassName].(*networking.IngressClass); ok {
				n := cur.DeepCopy()
				n.Generation++
				if n.Spec.Controller == controllerName {
					n.Spec.Controller = g.foreignController()
				} else {
					n.Spec.Controller = controllerName
				}
				g.emit(n, "our class changes controller")
			}
		}
	case "renotify":
		kinds := []string{KIngress, KService, KEndpoints, KSecret, KConfigMap, KPod, KIngressClass}
		kind := kinds[g.pick(len(kinds))]
		keys := g.keys(kind)
		if len(keys) == 0 {
			return
		}
		g.ops = append(g.ops, Op{Type: "renotify", Kind: kind, Key: keys[g.pick(len(keys))]})
	case "neutral_update":
		// updates that pass the watcher predicates but do not change any effective content
		switch g.pick(4) {
		case 0:
			keys := g.keys(KIngress)
			if len(keys) == 0 {
				return
			}
			cur := g.objs[KIngress][keys[g.pick(len(keys))]].(*networking.Ingress).DeepCopy()
			if cur.Annotations == nil {
				cur.Annotations = map[string]string{}
			}
			cur.Annotations["example.com/note"] = fmt.Sprint(g.pick(1000))
			g.emit(cur, "foreign annotation")
		case 1:
			keys := g.keys(KSecret)
			if len(keys) == 0 {
				return
			}
			g.emit(g.objs[KSecret][keys[g.pick(len(keys))]].(*api.Secret).DeepCopy(), "identical content")
		case 2:
			keys := g.keys(KService)
			if len(keys) == 0 {
				return
			}
			cur := g.objs[KService][keys[g.pick(len(keys))]].(*api.Service).DeepCopy()
			if cur.Annotations == nil {
				cur.Annotations = map[string]string{}
			}
			cur.Annotations["example.com/note"] = fmt.Sprint(g.pick(1000))
			g.emit(cur, "foreign annotation")
		case 3:
			if cur, ok := g.objs[KConfigMap][globalConfigMapName].(*api.ConfigMap); ok {
				g.emit(cur.DeepCopy(), "identical data")
			}
		}
	case "advance":
		g.ops = append(g.ops, Op{Type: "advance", Ms: []int{1, 50, 200, 1000, 2500, 6000, 31000}[g.pick(7)]})
	}
}

// dropPartialSegmentPaths removes paths from an alphabet until none ends inside
// a segment of another one (/ap under /app, /app under /app1): the path that
// takes part in most such pairs goes first, the longer one on a tie.
func dropPartialSegmentPaths(paths []string) []string {
	ps := append([]string{}, paths...)
	for {
		count := map[string]int{}
		for _, a := range ps {
			for _, b := range ps {
				if partialSegment(a, b) {
					count[a]++
					count[b]++
				}
			}
		}
		worst := ""
		for _, p := range ps {
			if count[p] > 0 && (worst == "" || count[p] > count[worst] || (count[p] == count[worst] && len(p) > len(worst))) {
				worst = p
			}
		}
		if worst == "" {
			return ps
		}
		var keep []string
		for _, p := range ps {
			if p != worst {
				keep = append(keep, p)
			}
		}
		ps = keep
	}
}

// historyViolatesAvoid replays a recorded history through the generator's own
// constraint enforcement: every ingress of the world and of the apply
// operations must be a fixed point of sanitize in the state that precedes it.
// A minimisation candidate that dropped an operation (a delete, an earlier
// version of an object) can leave the constrained space; such a candidate is
// not a witness of anything new.
func historyViolatesAvoid(cfg *RunConfig) string {
	if len(cfg.Avoid) == 0 || cfg.World == nil {
		return ""
	}
	av := map[string]bool{}
	for _, a := range cfg.Avoid {
		av[a] = true
	}
	g := &gen{rng: rand.New(rand.NewPCG(cfg.Seed, 0x68617073696d)), opt: GenOptions{Avoid: av}, objs: map[string]map[string]client.Object{}, defBackendOK: map[string]bool{}, defBackendSig: map[string]string{}}
	g.tcpShared = cfg.Seed%2 == 0
	g.seed = cfg.Seed
	check := func(kind string, raw json.RawMessage, where string) string {
		o := decodeObj(kind, raw)
		if ing, ok := o.(*networking.Ingress); ok {
			before, _ := json.Marshal(ing)
			cp := ing.DeepCopy()
			g.sanitize(cp)
			after, _ := json.Marshal(cp)
			if string(before) != string(after) {
				if os.Getenv("HAPSIM_DEBUG_AVOID") != "" {
					fmt.Fprintf(os.Stderr, "AVOID-DEBUG %s\n before %s\n after  %s\n", where, before, after)
				}
				return where + " leaves the constrained space of " + strings.Join(cfg.Avoid, ",")
			}
			// sanitize also keeps books (defBackendOK): run it on the real object too
			g.sanitize(ing)
		}
		g.put(o)
		return ""
	}
	g.world = &World{}
	for _, wo := range cfg.World.Objects {
		if why := check(wo.Kind, wo.Obj, "world object "+wo.Kind); why != "" {
			return why
		}
	}
	g.world = nil
	for i, op := range cfg.Ops {
		switch op.Type {
		case "apply":
			if why := check(op.Kind, op.Obj, fmt.Sprintf("operation %d (%s %s)", i+1, op.Kind, op.Key)); why != "" {
				return why
			}
		case "delete":
			g.del(op.Kind, op.Key)
		}
	}
	return ""
}

// genTCPServices changes n entries of the tcp-services ConfigMap:
// <port> -> <ns/svc>:<port>:[PROXY]:[PROXY[-V1|V2]]:<crt secret>:<check interval>:<ca secret>
func (g *gen) genTCPServices(cur map[string]string, n int) map[string]string {
	data := map[string]string{}
	for k, v := range cur {
		data[k] = v
	}
	for i := 0; i < n; i++ {
		port := pickStr(g, []string{"7100", "7101", "7102", "7100", "7101", "07100"}) // (07100 is port 7100 again)
		if _, ok := data[port]; ok && g.chance(1, 3) {
			delete(data, port)
			continue
		}
		svc := pickStr(g, []string{"a/s1:8080", "a/s1:http", "a/s2:8080", "a/s2:9090", "b/s3:8081", "b/s1:8080", "a/missing:80", "a/s1:99", ""})
		f := []string{svc, pickStr(g, []string{"", "", "PROXY"}), pickStr(g, []string{"", "", "PROXY", "PROXY-V1"}),
			pickStr(g, []string{"", "", "a/tls1", "b/tls1", "a/missing"}), pickStr(g, []string{"", "", "-", "5s", "bad"}), pickStr(g, []string{"", "", "a/ca", "b/missing"})}
		data[port] = strings.TrimRight(strings.Join(f, ":"), ":")
	}
	return data
}

// foreignController names the controller of the classes that are not ours: an unrelated one or, in one
// run in three, the sibling instance a --controller-class=internal deployment runs (our name is its prefix).
func (g *gen) foreignController() string {
	if g.seed%3 == 0 {
		return controllerName + "/internal"
	}
	return "example.com/other"
}
