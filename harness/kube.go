package hapsim

// SimKube: ground-truth object store, per-kind informer stores that lag behind
// it, per-kind FIFO queues of store updates and notifications, the client the
// controller reads through, and the stub manager/cache/informer the real
// controller-runtime sources attach to.

import (
	"context"
	"fmt"
	"reflect"
	"sort"
	"strings"
	"time"

	"github.com/go-logr/logr"
	api "k8s.io/api/core/v1"
	discoveryv1 "k8s.io/api/discovery/v1"
	networking "k8s.io/api/networking/v1"
	apierrors "k8s.io/apimachinery/pkg/api/errors"
	metav1 "k8s.io/apimachinery/pkg/apis/meta/v1"
	"k8s.io/apimachinery/pkg/labels"
	"k8s.io/apimachinery/pkg/runtime"
	"k8s.io/apimachinery/pkg/runtime/schema"
	toolscache "k8s.io/client-go/tools/cache"
	"sigs.k8s.io/controller-runtime/pkg/cache"
	"sigs.k8s.io/controller-runtime/pkg/client"
	ctrlconfig "sigs.k8s.io/controller-runtime/pkg/config"
	"sigs.k8s.io/controller-runtime/pkg/manager"
	gatewayv1 "sigs.k8s.io/gateway-api/apis/v1"
	gatewayv1alpha2 "sigs.k8s.io/gateway-api/apis/v1alpha2"
	gatewayv1beta1 "sigs.k8s.io/gateway-api/apis/v1beta1"
)

// Kind names used throughout the harness.
const (
	KConfigMap    = "ConfigMap"
	KService      = "Service"
	KEndpoints    = "Endpoints"
	KEPSlice      = "EndpointSlice"
	KSecret       = "Secret"
	KPod          = "Pod"
	KNamespace    = "Namespace"
	KIngress      = "Ingress"
	KIngressClass = "IngressClass"
	KGateway      = "Gateway"
	KGatewayClass = "GatewayClass"
	KHTTPRoute    = "HTTPRoute"
	KTCPRoute     = "TCPRoute"
	KGatewayB1    = "GatewayB1"
	KGatewayClsB1 = "GatewayClassB1"
	KHTTPRouteB1  = "HTTPRouteB1"
	KGatewayA2    = "GatewayA2"
	KGatewayClsA2 = "GatewayClassA2"
	KHTTPRouteA2  = "HTTPRouteA2"
)

type kindInfo struct {
	name string
	obj  client.Object
	list client.ObjectList
	gvk  schema.GroupVersionKind
}

var kinds = []kindInfo{
	{KConfigMap, &api.ConfigMap{}, &api.ConfigMapList{}, api.SchemeGroupVersion.WithKind("ConfigMap")},
	{KService, &api.Service{}, &api.ServiceList{}, api.SchemeGroupVersion.WithKind("Service")},
	{KEndpoints, &api.Endpoints{}, &api.EndpointsList{}, api.SchemeGroupVersion.WithKind("Endpoints")},
	{KEPSlice, &discoveryv1.EndpointSlice{}, &discoveryv1.EndpointSliceList{}, discoveryv1.SchemeGroupVersion.WithKind("EndpointSlice")},
	{KSecret, &api.Secret{}, &api.SecretList{}, api.SchemeGroupVersion.WithKind("Secret")},
	{KPod, &api.Pod{}, &api.PodList{}, api.SchemeGroupVersion.WithKind("Pod")},
	{KNamespace, &api.Namespace{}, &api.NamespaceList{}, api.SchemeGroupVersion.WithKind("Namespace")},
	{KIngress, &networking.Ingress{}, &networking.IngressList{}, networking.SchemeGroupVersion.WithKind("Ingress")},
	{KIngressClass, &networking.IngressClass{}, &networking.IngressClassList{}, networking.SchemeGroupVersion.WithKind("IngressClass")},
	{KGateway, &gatewayv1.Gateway{}, &gatewayv1.GatewayList{}, gatewayv1.SchemeGroupVersion.WithKind("Gateway")},
	{KGatewayClass, &gatewayv1.GatewayClass{}, &gatewayv1.GatewayClassList{}, gatewayv1.SchemeGroupVersion.WithKind("GatewayClass")},
	{KHTTPRoute, &gatewayv1.HTTPRoute{}, &gatewayv1.HTTPRouteList{}, gatewayv1.SchemeGroupVersion.WithKind("HTTPRoute")},
	{KTCPRoute, &gatewayv1alpha2.TCPRoute{}, &gatewayv1alpha2.TCPRouteList{}, gatewayv1alpha2.SchemeGroupVersion.WithKind("TCPRoute")},
	{KGatewayB1, &gatewayv1beta1.Gateway{}, &gatewayv1beta1.GatewayList{}, gatewayv1beta1.SchemeGroupVersion.WithKind("Gateway")},
	{KGatewayClsB1, &gatewayv1beta1.GatewayClass{}, &gatewayv1beta1.GatewayClassList{}, gatewayv1beta1.SchemeGroupVersion.WithKind("GatewayClass")},
	{KHTTPRouteB1, &gatewayv1beta1.HTTPRoute{}, &gatewayv1beta1.HTTPRouteList{}, gatewayv1beta1.SchemeGroupVersion.WithKind("HTTPRoute")},
	{KGatewayA2, &gatewayv1alpha2.Gateway{}, &gatewayv1alpha2.GatewayList{}, gatewayv1alpha2.SchemeGroupVersion.WithKind("Gateway")},
	{KGatewayClsA2, &gatewayv1alpha2.GatewayClass{}, &gatewayv1alpha2.GatewayClassList{}, gatewayv1alpha2.SchemeGroupVersion.WithKind("GatewayClass")},
	{KHTTPRouteA2, &gatewayv1alpha2.HTTPRoute{}, &gatewayv1alpha2.HTTPRouteList{}, gatewayv1alpha2.SchemeGroupVersion.WithKind("HTTPRoute")},
}

var (
	kindByObjType  = map[reflect.Type]*kindInfo{}
	kindByListType = map[reflect.Type]*kindInfo{}
	kindByName     = map[string]*kindInfo{}
)

func init() {
	for i := range kinds {
		k := &kinds[i]
		kindByObjType[reflect.TypeOf(k.obj)] = k
		kindByListType[reflect.TypeOf(k.list)] = k
		kindByName[k.name] = k
	}
}

func kindOf(obj runtime.Object) string {
	if k := kindByObjType[reflect.TypeOf(obj)]; k != nil {
		return k.name
	}
	if k := kindByListType[reflect.TypeOf(obj)]; k != nil {
		return k.name
	}
	panic(harnessError(fmt.Sprintf("simkube: unknown object type %T", obj)))
}

func objKey(o client.Object) string {
	if ns := o.GetNamespace(); ns != "" {
		return ns + "/" + o.GetName()
	}
	return o.GetName()
}

// note is one pending handler notification.
type note struct {
	typ      string // add | update | delete
	old, new client.Object
}

// delta is one pending informer-store update.
type delta struct {
	key string
	obj client.Object // nil = delete
}

type kindState struct {
	truth   map[string]client.Object
	store   map[string]client.Object
	storeQ  []delta
	notifyQ []note
	// handlers of the current controller generation
	handlers []toolscache.ResourceEventHandler
}

// Kube is the simulated API server + informers.
type Kube struct {
	run   *Run
	kinds map[string]*kindState
	rv    int64
	uid   int64
	// Lagfree: store update and notification happen at once when the truth changes.
	Lagfree bool
	// NoLagKinds: kinds whose informer store follows the truth at once.
	NoLagKinds map[string]bool
	// delivering is true while a handler runs (no nested scheduling).
	delivering bool
	// fullEventPending: an event of a kind whose handler asks for a full sync was
	// delivered and no full sync ran since.
	fullEventPending bool
	// counters
	Reads, Notes int
	// readTrace, when non-nil, records every Get/List key (C09 uses it).
	readTrace []string
}

func NewKube(run *Run) *Kube {
	k := &Kube{run: run, kinds: map[string]*kindState{}}
	for _, ki := range kinds {
		k.kinds[ki.name] = &kindState{truth: map[string]client.Object{}, store: map[string]client.Object{}}
	}
	return k
}

func (k *Kube) ks(kind string) *kindState {
	s := k.kinds[kind]
	if s == nil {
		panic(harnessError("simkube: unknown kind " + kind))
	}
	return s
}

func copyObj(o client.Object) client.Object {
	if o == nil {
		return nil
	}
	return o.DeepCopyObject().(client.Object)
}

// Apply changes the ground truth: create or replace (obj != nil) or delete.
// The object's resourceVersion is set here. Returns false when nothing changed
// (delete of an absent object).
func (k *Kube) Apply(kind, key string, obj client.Object) bool {
	s := k.ks(kind)
	if obj == nil {
		if _, ok := s.truth[key]; !ok {
			return false
		}
		delete(s.truth, key)
	} else {
		obj = copyObj(obj)
		k.rv++
		obj.SetResourceVersion(fmt.Sprint(k.rv))
		if prev := s.truth[key]; prev != nil && obj.GetUID() == "" {
			obj.SetUID(prev.GetUID()) // an update keeps the identity of the object
		}
		if obj.GetUID() == "" {
			k.uid++
			obj.SetUID(typesUID(fmt.Sprintf("uid-%04d", k.uid)))
		}
		s.truth[key] = obj
	}
	s.storeQ = append(s.storeQ, delta{key: key, obj: copyObj(obj)})
	if k.Lagfree {
		k.Flush()
	} else if k.NoLagKinds[kind] {
		for len(s.storeQ) > 0 {
			k.Step("store:" + kind)
		}
	}
	return true
}

// Seed puts an object in truth and store without any notification (state that
// existed before the controller started; notifications for it are produced by
// InitialList).
func (k *Kube) Seed(kind string, obj client.Object) {
	s := k.ks(kind)
	obj = copyObj(obj)
	k.rv++
	obj.SetResourceVersion(fmt.Sprint(k.rv))
	if obj.GetUID() == "" {
		k.uid++
		obj.SetUID(typesUID(fmt.Sprintf("uid-%04d", k.uid)))
	}
	s.truth[objKey(obj)] = obj
	s.store[objKey(obj)] = copyObj(obj)
}

// Truth returns the ground-truth object or nil.
func (k *Kube) Truth(kind, key string) client.Object {
	return k.ks(kind).truth[key]
}

// TruthKeys returns the sorted keys of a kind.
func (k *Kube) TruthKeys(kind string) []string {
	s := k.ks(kind)
	keys := make([]string, 0, len(s.truth))
	for key := range s.truth {
		keys = append(keys, key)
	}
	sort.Strings(keys)
	return keys
}

// InitialList queues an add notification for every object of every kind in the
// informer stores (what a starting informer delivers).
func (k *Kube) InitialList() {
	for _, ki := range kinds {
		s := k.kinds[ki.name]
		keys := make([]string, 0, len(s.store))
		for key := range s.store {
			keys = append(keys, key)
		}
		sort.Strings(keys)
		// the initial list order of a real informer is the API list order
		// (arbitrary for the handlers): permute
		k.run.Shuffle("kube.initlist."+ki.name, len(keys), func(i, j int) { keys[i], keys[j] = keys[j], keys[i] })
		for _, key := range keys {
			s.notifyQ = append(s.notifyQ, note{typ: "add", new: copyObj(s.store[key])})
		}
	}
}

// Pending reports whether any store update or notification is queued.
func (k *Kube) Pending() bool {
	for _, s := range k.kinds {
		if len(s.storeQ) > 0 || len(s.notifyQ) > 0 {
			return true
		}
	}
	return false
}

// PendingActions lists the enabled informer steps, sorted: "store:<kind>" and "notify:<kind>".
func (k *Kube) PendingActions() []string {
	var out []string
	for _, ki := range kinds {
		s := k.kinds[ki.name]
		if len(s.storeQ) > 0 {
			out = append(out, "store:"+ki.name)
		}
		if len(s.notifyQ) > 0 {
			out = append(out, "notify:"+ki.name)
		}
	}
	return out
}

// Step performs one informer step named as in PendingActions.
func (k *Kube) Step(action string) {
	typ, kind, _ := strings.Cut(action, ":")
	s := k.ks(kind)
	switch typ {
	case "store":
		if len(s.storeQ) == 0 {
			return
		}
		d := s.storeQ[0]
		s.storeQ = s.storeQ[1:]
		old := s.store[d.key]
		switch {
		case d.obj == nil && old == nil:
		case d.obj == nil:
			delete(s.store, d.key)
			s.notifyQ = append(s.notifyQ, note{typ: "delete", old: old})
		case old == nil:
			s.store[d.key] = d.obj
			s.notifyQ = append(s.notifyQ, note{typ: "add", new: copyObj(d.obj)})
		default:
			s.store[d.key] = d.obj
			s.notifyQ = append(s.notifyQ, note{typ: "update", old: old, new: copyObj(d.obj)})
		}
	case "notify":
		if len(s.notifyQ) == 0 {
			return
		}
		n := s.notifyQ[0]
		s.notifyQ = s.notifyQ[1:]
		k.deliver(kind, n)
	}
}

// Renotify queues a spurious notification for an object as it is in the store
// (resync: update with identical old and new).
func (k *Kube) Renotify(kind, key string) bool {
	s := k.ks(kind)
	o := s.store[key]
	if o == nil {
		return false
	}
	s.notifyQ = append(s.notifyQ, note{typ: "update", old: copyObj(o), new: copyObj(o)})
	return true
}

func (k *Kube) deliver(kind string, n note) {
	if kind == KSecret && k.run.inReconcile {
		k.run.midRecSecret = true
	}
	s := k.ks(kind)
	k.delivering = true
	defer func() { k.delivering = false }()
	switch kind {
	case KIngressClass, KGateway, KGatewayClass, KHTTPRoute, KTCPRoute, KGatewayB1, KGatewayClsB1, KHTTPRouteB1, KGatewayA2, KGatewayClsA2, KHTTPRouteA2:
		k.fullEventPending = true
	}
	k.Notes++
	k.run.trace("notify %s %s %s", n.typ, kind, noteKey(n))
	for _, h := range s.handlers {
		switch n.typ {
		case "add":
			h.OnAdd(n.new, false)
		case "update":
			h.OnUpdate(n.old, n.new)
		case "delete":
			h.OnDelete(n.old)
		}
	}
}

func noteKey(n note) string {
	if n.new != nil {
		return objKey(n.new)
	}
	return objKey(n.old)
}

// Flush applies every queued store update and notification, kind by kind in
// the fixed kind order (used by lag-free profiles and to reach quiescence).
func (k *Kube) Flush() {
	for k.Pending() {
		for _, a := range k.PendingActions() {
			k.Step(a)
		}
	}
}

// ResetHandlers forgets the handlers (controller generation died).
func (k *Kube) ResetHandlers() {
	for _, s := range k.kinds {
		s.handlers = nil
		s.notifyQ = nil
	}
}

// ---------------------------------------------------------------------------
// client.Client over the informer stores

type simClient struct {
	client.Client // nil: unimplemented methods panic
	k             *Kube
}

func (k *Kube) Client() client.Client { return &simClient{k: k} }

func (c *simClient) schedRead(what string) error {
	k := c.k
	k.Reads++
	if k.readTrace != nil {
		k.readTrace = append(k.readTrace, what)
	}
	rt := k.run.rt
	if rt.Quiet {
		return nil
	}
	if rt.Crashed {
		return apierrors.NewServiceUnavailable("controller crashed")
	}
	if !k.delivering {
		rt.Sched("kube.read:" + what)
		if rt.Fault("kube.read_error", what) {
			return apierrors.NewTimeoutError("simulated api read timeout", 1)
		}
	} else {
		rt.Activity.Add(1)
	}
	return nil
}

func (c *simClient) Get(ctx context.Context, key client.ObjectKey, obj client.Object, opts ...client.GetOption) error {
	ki := kindByObjType[reflect.TypeOf(obj)]
	if ki == nil {
		return fmt.Errorf("simkube: unknown type %T", obj)
	}
	skey := key.Name
	if key.Namespace != "" {
		skey = key.Namespace + "/" + key.Name
	}
	if err := c.schedRead("get/" + ki.name + "/" + skey); err != nil {
		return err
	}
	s := c.k.ks(ki.name)
	o := s.store[skey]
	if o == nil {
		return apierrors.NewNotFound(schema.GroupResource{Group: ki.gvk.Group, Resource: strings.ToLower(ki.gvk.Kind)}, key.Name)
	}
	// copy into obj
	cp := o.DeepCopyObject()
	reflect.ValueOf(obj).Elem().Set(reflect.ValueOf(cp).Elem())
	// the cache reader of controller-runtime sets the GVK on what it returns
	obj.GetObjectKind().SetGroupVersionKind(ki.gvk)
	return nil
}

func (c *simClient) List(ctx context.Context, list client.ObjectList, opts ...client.ListOption) error {
	ki := kindByListType[reflect.TypeOf(list)]
	if ki == nil {
		return fmt.Errorf("simkube: unknown list type %T", list)
	}
	lo := client.ListOptions{}
	lo.ApplyOptions(opts)
	if err := c.schedRead("list/" + ki.name); err != nil {
		return err
	}
	s := c.k.ks(ki.name)
	keys := make([]string, 0, len(s.store))
	for key, o := range s.store {
		if lo.Namespace != "" && o.GetNamespace() != lo.Namespace {
			continue
		}
		if lo.LabelSelector != nil && !lo.LabelSelector.Matches(labels.Set(o.GetLabels())) {
			continue
		}
		keys = append(keys, key)
	}
	sort.Strings(keys)
	if !c.k.run.rt.Quiet || c.k.run.rt.QuietOrder {
		c.k.run.Shuffle("kube.list."+ki.name, len(keys), func(i, j int) { keys[i], keys[j] = keys[j], keys[i] })
	}
	items := reflect.ValueOf(list).Elem().FieldByName("Items")
	out := reflect.MakeSlice(items.Type(), 0, len(keys))
	for _, key := range keys {
		cp := s.store[key].DeepCopyObject().(client.Object)
		cp.GetObjectKind().SetGroupVersionKind(ki.gvk)
		out = reflect.Append(out, reflect.ValueOf(cp).Elem())
	}
	items.Set(out)
	return nil
}

// Update / Create: writes by the controller itself (acme secrets, tokens).
func (c *simClient) Update(ctx context.Context, obj client.Object, opts ...client.UpdateOption) error {
	kind := kindOf(obj)
	if c.k.run.rt.Crashed {
		return apierrors.NewServiceUnavailable("controller crashed")
	}
	if c.k.run.rt.Fault("kube.write_error", kind+"/"+objKey(obj)) {
		return apierrors.NewTimeoutError("simulated api write timeout", 1)
	}
	if c.k.Truth(kind, objKey(obj)) == nil {
		return apierrors.NewNotFound(schema.GroupResource{Resource: strings.ToLower(kind)}, obj.GetName())
	}
	c.k.run.trace("client update %s %s", kind, objKey(obj))
	if sec, ok := obj.(*api.Secret); ok {
		c.k.run.acmeSecretWritten(sec)
	}
	c.k.Apply(kind, objKey(obj), obj)
	return nil
}

func (c *simClient) Create(ctx context.Context, obj client.Object, opts ...client.CreateOption) error {
	kind := kindOf(obj)
	if c.k.run.rt.Crashed {
		return apierrors.NewServiceUnavailable("controller crashed")
	}
	if c.k.run.rt.Fault("kube.write_error", kind+"/"+objKey(obj)) {
		return apierrors.NewTimeoutError("simulated api write timeout", 1)
	}
	if c.k.Truth(kind, objKey(obj)) != nil {
		return apierrors.NewAlreadyExists(schema.GroupResource{Resource: strings.ToLower(kind)}, obj.GetName())
	}
	if ts := obj.GetCreationTimestamp(); ts.IsZero() {
		obj.SetCreationTimestamp(metav1.NewTime(time.Now()))
	}
	c.k.run.trace("client create %s %s", kind, objKey(obj))
	if sec, ok := obj.(*api.Secret); ok {
		c.k.run.acmeSecretWritten(sec)
	}
	c.k.Apply(kind, objKey(obj), obj)
	return nil
}

func (c *simClient) Scheme() *runtime.Scheme { return c.k.run.scheme }

// ---------------------------------------------------------------------------
// stub manager / cache / informer

type simManager struct {
	manager.Manager // nil
	k               *Kube
	log             logr.Logger
	runnables       []manager.Runnable
}

func (m *simManager) Add(r manager.Runnable) error {
	m.runnables = append(m.runnables, r)
	return nil
}
func (m *simManager) GetCache() cache.Cache      { return &simCache{k: m.k} }
func (m *simManager) GetLogger() logr.Logger     { return m.log }
func (m *simManager) GetClient() client.Client   { return m.k.Client() }
func (m *simManager) GetScheme() *runtime.Scheme { return m.k.run.scheme }
func (m *simManager) GetControllerOptions() ctrlconfig.Controller {
	return ctrlconfig.Controller{}
}

type simCache struct {
	cache.Cache // nil
	k           *Kube
}

func (c *simCache) GetInformer(ctx context.Context, obj client.Object, opts ...cache.InformerGetOption) (cache.Informer, error) {
	ki := kindByObjType[reflect.TypeOf(obj)]
	if ki == nil {
		return nil, fmt.Errorf("simkube: no informer for %T", obj)
	}
	return &simInformer{k: c.k, kind: ki.name}, nil
}

func (c *simCache) WaitForCacheSync(ctx context.Context) bool { return true }

type simInformer struct {
	k    *Kube
	kind string
}

type simReg struct{}

func (simReg) HasSynced() bool { return true }

func (i *simInformer) AddEventHandler(h toolscache.ResourceEventHandler) (toolscache.ResourceEventHandlerRegistration, error) {
	i.k.run.hmu.Lock()
	defer i.k.run.hmu.Unlock()
	s := i.k.ks(i.kind)
	s.handlers = append(s.handlers, h)
	return simReg{}, nil
}
func (i *simInformer) AddEventHandlerWithResyncPeriod(h toolscache.ResourceEventHandler, d time.Duration) (toolscache.ResourceEventHandlerRegistration, error) {
	return i.AddEventHandler(h)
}
func (i *simInformer) RemoveEventHandler(toolscache.ResourceEventHandlerRegistration) error {
	return nil
}
func (i *simInformer) AddIndexers(toolscache.Indexers) error { return nil }
func (i *simInformer) HasSynced() bool                       { return true }
func (i *simInformer) IsStopped() bool                       { return false }

// invalidWorld reports a world that cannot exist in a cluster: an Endpoints
// address whose target pod does not exist (pods precede their endpoints).
func (k *Kube) invalidWorld() string {
	for _, key := range k.TruthKeys(KEndpoints) {
		ep := k.Truth(KEndpoints, key).(*api.Endpoints)
		for _, ss := range ep.Subsets {
			for _, a := range append(append([]api.EndpointAddress{}, ss.Addresses...), ss.NotReadyAddresses...) {
				if a.TargetRef != nil && a.TargetRef.Kind == "Pod" {
					if k.Truth(KPod, a.TargetRef.Namespace+"/"+a.TargetRef.Name) == nil {
						return "endpoints " + key + " refer to missing pod " + a.TargetRef.Name
					}
				}
			}
		}
	}
	return ""
}
