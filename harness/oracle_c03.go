package hapsim

// C03 — requests reach exactly the ready endpoints that Ingress and Service
// designate. A reference router, written from the documentation (Ingress v1
// spec, keys.md "Path type", "SSL redirect", "Drain support", command-line
// "--default-backend-service"), computes the expected outcome of every probe
// request from the cluster state; the request evaluator answers the same
// question from the written files and from the running SimHAProxy.
//
// Modelled fragment (the generator of the `routing` profile stays inside it):
// exact host names and the default (empty) host, path types exact / prefix /
// begin, several ingresses per host with duplicated paths, numeric and named
// service ports, spec.defaultBackend, --default-backend-service, TLS blocks,
// the global ssl-redirect and drain-support keys.

import (
	"fmt"
	"os"
	"path/filepath"
	"sort"
	"strings"

	api "k8s.io/api/core/v1"
	networking "k8s.io/api/networking/v1"
)

type refRule struct {
	host, path, typ string
	ns, svc, port   string
	ing             string
}

type refState struct {
	rules       []refRule
	tls         map[string]bool
	sslRedirect bool
	drain       bool
	defBackend  string // ns/svc ("" = none)
}

func (r *Run) selectedIngresses() []*networking.Ingress {
	var out []*networking.Ingress
	for _, key := range r.kube.TruthKeys(KIngress) {
		ing := r.kube.Truth(KIngress, key).(*networking.Ingress)
		if r.refSelected(ing) {
			out = append(out, ing)
		}
	}
	sort.SliceStable(out, func(i, j int) bool {
		a, b := out[i], out[j]
		if !a.CreationTimestamp.Equal(&b.CreationTimestamp) {
			return a.CreationTimestamp.Before(&b.CreationTimestamp)
		}
		return a.Namespace+"/"+a.Name < b.Namespace+"/"+b.Name
	})
	return out
}

// refSelected is the documented class selection (keys.md "Class matter",
// command-line "--ingress-class", "--ingress-class-precedence",
// "--watch-ingress-without-class").
func (r *Run) refSelected(ing *networking.Ingress) bool {
	ctl := r.Cfg.Ctl
	ann, hasAnn := ing.Annotations["kubernetes.io/ingress.class"]
	annOurs := hasAnn && ann == ingressClassName
	hasClass := ing.Spec.IngressClassName != nil
	classOurs := false
	if hasClass {
		if ic, _ := r.kube.Truth(KIngressClass, *ing.Spec.IngressClassName).(*networking.IngressClass); ic != nil {
			classOurs = ic.Spec.Controller == controllerName
		}
	}
	switch {
	case hasAnn && hasClass:
		if annOurs != classOurs && ctl.IngressClassPrecedence {
			return classOurs
		}
		return annOurs
	case hasAnn:
		return annOurs
	case hasClass:
		return classOurs
	}
	return ctl.WatchIngressWithoutClass
}

func (r *Run) findServicePort(ns, svc, port string) (*api.Service, *api.ServicePort) {
	s, _ := r.kube.Truth(KService, ns+"/"+svc).(*api.Service)
	if s == nil {
		return nil, nil
	}
	for i := range s.Spec.Ports {
		p := &s.Spec.Ports[i]
		if p.Name != "" && p.Name == port {
			return s, p
		}
		if fmt.Sprint(p.Port) == port {
			return s, p
		}
	}
	return s, nil
}

func backendPort(b *networking.IngressBackend) (string, string, bool) {
	if b.Service == nil {
		return "", "", false
	}
	p := b.Service.Port.Name
	if p == "" {
		p = fmt.Sprint(b.Service.Port.Number)
	}
	return b.Service.Name, p, true
}

func (r *Run) buildRef() *refState {
	st := &refState{tls: map[string]bool{}}
	st.sslRedirect = r.globalBool("ssl-redirect", true)
	st.drain = r.globalBool("drain-support", false)
	if ds := r.Cfg.Ctl.DefaultService; ds != "" {
		ns, svc, _ := strings.Cut(ds, "/")
		if s, _ := r.kube.Truth(KService, ds).(*api.Service); s != nil && len(s.Spec.Ports) > 0 {
			st.defBackend = ns + "/" + svc
		}
	}
	declared := map[string]bool{}
	for _, ing := range r.selectedIngresses() {
		ptAnn := strings.ToLower(ing.Annotations[annPrefix+"path-type"])
		add := func(host, path, typ string, b *networking.IngressBackend) {
			svc, port, ok := backendPort(b)
			if !ok {
				return
			}
			if _, sp := r.findServicePort(ing.Namespace, svc, port); sp == nil {
				return // an unresolvable declaration owns nothing
			}
			key := host + "#" + path + "#" + typ
			if declared[key] {
				return // first-created ingress wins a duplicated path
			}
			declared[key] = true
			st.rules = append(st.rules, refRule{host: host, path: path, typ: typ, ns: ing.Namespace, svc: svc, port: port, ing: ing.Namespace + "/" + ing.Name})
		}
		if ing.Spec.DefaultBackend != nil {
			add("", "/", "begin", ing.Spec.DefaultBackend)
		}
		for _, rule := range ing.Spec.Rules {
			if rule.HTTP == nil {
				continue
			}
			for _, p := range rule.HTTP.Paths {
				path := p.Path
				if path == "" {
					path = "/"
				}
				typ := "begin"
				pt := networking.PathTypeImplementationSpecific
				if p.PathType != nil {
					pt = *p.PathType
				}
				switch pt {
				case networking.PathTypeExact:
					typ = "exact"
				case networking.PathTypePrefix:
					typ = "prefix"
				default:
					switch ptAnn {
					case "prefix", "exact", "begin":
						typ = ptAnn
					}
				}
				b := p.Backend
				add(rule.Host, path, typ, &b)
			}
		}
		for _, t := range ing.Spec.TLS {
			for _, h := range t.Hosts {
				st.tls[h] = true
			}
		}
	}
	return st
}

func ruleMatches(ru refRule, path string) bool {
	switch ru.typ {
	case "exact":
		return path == ru.path
	case "prefix":
		p := strings.TrimSuffix(ru.path, "/")
		return path == p || strings.HasPrefix(path, p+"/") || ru.path == "/"
	default: // begin: case insensitive
		return strings.HasPrefix(strings.ToLower(path), strings.ToLower(ru.path))
	}
}

// bestRules: an exact rule equal to the path wins; otherwise the matching rules
// with the longest declared path (several when one path is declared with
// different non-exact types: either may win).
func bestRules(rules []refRule, host, path string) []refRule {
	var exact, other []refRule
	longest := -1
	for _, ru := range rules {
		if ru.host != host || !ruleMatches(ru, path) {
			continue
		}
		if ru.typ == "exact" {
			exact = append(exact, ru)
			continue
		}
		// the declared path as written: /app/ is longer than /app
		l := len(ru.path)
		if ru.path == "/" {
			l = 0
		}
		if l > longest {
			longest = l
			other = []refRule{ru}
		} else if l == longest {
			other = append(other, ru)
		}
	}
	if len(exact) > 0 {
		return exact[:1]
	}
	return other
}

// expectedServers: ready endpoints of the service port as "ip:port"; notReady
// ones separately.
func (r *Run) expectedServers(ns, svc, port string) (ready, notReady []string) {
	_, sp := r.findServicePort(ns, svc, port)
	ep, _ := r.kube.Truth(KEndpoints, ns+"/"+svc).(*api.Endpoints)
	if sp == nil || ep == nil {
		return nil, nil
	}
	for _, ss := range ep.Subsets {
		for _, p := range ss.Ports {
			if p.Protocol != "" && p.Protocol != api.ProtocolTCP {
				continue
			}
			match := false
			if sp.TargetPort.IntValue() > 0 {
				match = int(p.Port) == sp.TargetPort.IntValue()
			} else {
				match = p.Name == sp.Name
			}
			if !match {
				continue
			}
			for _, a := range ss.Addresses {
				ready = append(ready, fmt.Sprintf("%s:%d", a.IP, p.Port))
			}
			for _, a := range ss.NotReadyAddresses {
				notReady = append(notReady, fmt.Sprintf("%s:%d", a.IP, p.Port))
			}
		}
	}
	sort.Strings(ready)
	sort.Strings(notReady)
	return
}

type refOutcome struct {
	kind   string // backend | redirect | notfound
	accept []refRule
	desc   string
}

func (st *refState) expect(req Req) refOutcome {
	host := strings.ToLower(strings.Split(req.Host, ":")[0])
	var cands []refRule
	if !req.HTTPS || st.tls[host] {
		cands = bestRules(st.rules, host, req.Path)
	}
	if len(cands) == 0 {
		cands = bestRules(st.rules, "", req.Path)
	}
	if len(cands) == 0 {
		if st.defBackend != "" {
			ns, svc, _ := strings.Cut(st.defBackend, "/")
			return refOutcome{kind: "backend", accept: []refRule{{ns: ns, svc: svc, port: ""}}, desc: "default backend " + st.defBackend}
		}
		return refOutcome{kind: "notfound", desc: "404"}
	}
	// plain HTTP to a rule of a TLS host is redirected when ssl-redirect is on
	if !req.HTTPS && st.sslRedirect && cands[0].host != "" && st.tls[cands[0].host] {
		return refOutcome{kind: "redirect", accept: cands, desc: "redirect to https"}
	}
	return refOutcome{kind: "backend", accept: cands, desc: fmt.Sprintf("%s %s%s -> %s/%s:%s", cands[0].typ, cands[0].host, cands[0].path, cands[0].ns, cands[0].svc, cands[0].port)}
}

func (r *Run) routingProbes(st *refState) []Req {
	hosts := map[string]bool{"unknown.host": true}
	paths := map[string]bool{"/": true, "/zz": true}
	for _, ru := range st.rules {
		if ru.host != "" {
			hosts[ru.host] = true
		}
		p := ru.path
		for _, v := range []string{p, p + "/", strings.TrimSuffix(p, "/"), p + "/zz", p + "zz", strings.ToUpper(p), p + "1"} {
			if v != "" && strings.HasPrefix(v, "/") {
				paths[v] = true
			}
		}
	}
	for h := range st.tls {
		hosts[h] = true
	}
	// hosts that were declared earlier in the run and are gone: their requests fall to the default host
	if r.seenHosts == nil {
		r.seenHosts = map[string]bool{}
	}
	for h := range r.seenHosts {
		if !hosts[h] {
			r.probe("removed_host_probed")
		}
		hosts[h] = true
	}
	for h := range hosts {
		r.seenHosts[h] = true
	}
	var out []Req
	for _, h := range sortedKeys(hosts) {
		for _, p := range sortedKeys(paths) {
			for _, https := range []bool{false, true} {
				out = append(out, Req{HTTPS: https, Host: h, Path: p})
			}
		}
		// host header variants reach the same rules
		out = append(out, Req{Host: strings.ToUpper(h) + ":8080", Path: "/"})
	}
	if len(out) > 400 {
		// keep it bounded but deterministic
		step := len(out)/400 + 1
		var cut []Req
		for i := 0; i < len(out); i += step {
			cut = append(cut, out[i])
		}
		out = cut
	}
	return out
}

// checkRouting compares the evaluator with the reference for every probe, on
// the files and on the running HAProxy.
func (r *Run) checkRouting() {
	disk := r.diskConfig()
	if disk == nil {
		return
	}
	if dir := os.Getenv("HAPSIM_DUMP"); dir != "" {
		dumpTo(filepath.Join(dir, fmt.Sprintf("route-%03d", r.probes["router_compared"])), r.FileSet(r.prefix))
	}
	st := r.buildRef()
	probes := r.routingProbes(st)
	r.probe("router_compared")
	views := []struct {
		name string
		cfg  *HAConfig
		opt  *NFOptions
	}{{"files", disk, nil}}
	if r.ha.Loaded != nil && !r.reloadPending {
		views = append(views, struct {
			name string
			cfg  *HAConfig
			opt  *NFOptions
		}{"running", r.ha.Loaded, &NFOptions{Servers: r.ha.Servers, RuntimeView: true}})
	}
	for _, v := range views {
		for _, req := range probes {
			out := v.cfg.Eval(req, v.opt)
			if len(out.Unknown) > 0 {
				panic(harnessError(fmt.Sprintf("evaluator met an unmodelled construct for %s: %v", req, out.Unknown)))
			}
			exp := st.expect(req)
			if msg := r.compareOutcome(st, exp, out); msg != "" {
				r.violate(&Violation{Property: "C03", Oracle: "router-" + v.name, Class: "route:" + classOf(msg),
					Witness: fmt.Sprintf("%s (%s): %s; expected %s; got %s", req, v.name, msg, exp.desc, out)})
				return
			}
			r.probe("requests_evaluated")
		}
	}
}

func (r *Run) compareOutcome(st *refState, exp refOutcome, out Outcome) string {
	switch exp.kind {
	case "notfound":
		if out.Kind == "service" && strings.Contains(out.Detail, "send-404") {
			return ""
		}
		if out.Kind == "redirect" && out.Backend == "_error404" {
			return "" // default-backend-redirect
		}
		return "not-found expected: the request should reach the 404 backend"
	case "redirect":
		if out.Kind == "redirect" && strings.Contains(out.Detail, "scheme https") {
			return ""
		}
		return "redirect expected: plain HTTP to a TLS host with ssl-redirect should be redirected to https"
	}
	if out.Kind != "backend" {
		return "backend expected: the request should be forwarded"
	}
	var msgs []string
	for _, ru := range exp.accept {
		port := ru.port
		if port == "" {
			// default backend: first port of the service
			if s, _ := r.kube.Truth(KService, ru.ns+"/"+ru.svc).(*api.Service); s != nil && len(s.Spec.Ports) > 0 {
				port = fmt.Sprint(s.Spec.Ports[0].Port)
			}
		}
		ready, notReady := r.expectedServers(ru.ns, ru.svc, port)
		var live, draining []string
		for _, s := range out.Servers {
			addr, w, _ := strings.Cut(s, " w=")
			if w == "0" {
				draining = append(draining, addr)
			} else {
				live = append(live, addr)
			}
		}
		if st.drain {
			// a ready address whose pod is terminating is drained as well
			var still []string
			for _, a := range ready {
				if r.isTerminatingPodAddr(ru.ns, ru.svc, a) {
					notReady = append(notReady, a)
				} else {
					still = append(still, a)
				}
			}
			ready = still
		}
		if strings.Join(live, ",") != strings.Join(ready, ",") {
			msgs = append(msgs, fmt.Sprintf("servers: live servers %v differ from the ready endpoints %v of %s/%s:%s", live, ready, ru.ns, ru.svc, port))
			continue
		}
		if len(draining) > 0 && !st.drain {
			msgs = append(msgs, fmt.Sprintf("draining: weight-0 servers %v without drain-support", draining))
			continue
		}
		okDrain := true
		for _, d := range draining {
			found := false
			for _, n := range notReady {
				if n == d {
					found = true
				}
			}
			if !found && !r.isTerminatingPodAddr(ru.ns, ru.svc, d) {
				okDrain = false
			}
		}
		if !okDrain {
			msgs = append(msgs, fmt.Sprintf("draining: weight-0 servers %v are neither not-ready nor terminating endpoints (%v)", draining, notReady))
			continue
		}
		return ""
	}
	return msgs[0]
}

func (r *Run) isTerminatingPodAddr(ns, svc, addr string) bool {
	ip := addr[:strings.LastIndexByte(addr, ':')]
	for _, key := range r.kube.TruthKeys(KPod) {
		p := r.kube.Truth(KPod, key).(*api.Pod)
		if p.Namespace == ns && p.Status.PodIP == ip && p.DeletionTimestamp != nil {
			return true
		}
	}
	return false
}
