package hapsim

// C06 — same cluster state, same behaviour, whatever the processing order.
// At a sync point the informer stores are fixed. A canonical fresh pipeline
// (sorted list results, sorted map iteration) is compared with K fresh
// pipelines that differ only in processing order: the order of every List
// result and the iteration order of every Go map in the controller are drawn
// from the tape. The long-running controller of the same run (started from a
// shuffled initial list, events delivered in tape order) is compared as well
// by the usual fresh oracle. Any difference in the behavioural normal form is
// a dependence on processing accident.

import (
	"fmt"
	"os"
	"path/filepath"
)

const c06Permutations = 4

func (r *Run) checkOrderIndependence() {
	canon := r.freshNF(false)
	if canon == nil {
		return
	}
	r.nfHashes[canon.Hash()] = true
	for i := 0; i < c06Permutations; i++ {
		before := r.rt.Stats["maporder.permuted"]
		perm := r.freshNF(true)
		r.probe("order_permutations_compared")
		if r.rt.Stats["maporder.permuted"] > before {
			r.probe("order_map_permuted")
		}
		if perm == nil {
			r.violate(&Violation{Property: "C06", Oracle: "permuted-fresh", Class: "order-dependent:no-configuration",
				Witness: "a fresh pipeline with permuted processing order wrote no configuration while the canonical one did"})
			return
		}
		if d := DiffNF(perm, canon, "permuted-order", "canonical-order"); d != "" {
			r.violate(&Violation{Property: "C06", Oracle: "permuted-fresh", Class: "order-dependent:" + diffClass2(d), Witness: d})
			return
		}
	}
}

// freshNF runs one fresh pipeline on the current stores and returns its normal form.
func (r *Run) freshNF(permuted bool) NF {
	r.oracleSeq++
	prefix := fmt.Sprintf("/sim/oracle%d", r.oracleSeq)
	save := r.rt.QuietOrder
	r.rt.QuietOrder = permuted
	_, err := r.FreshSync(prefix)
	r.rt.QuietOrder = save
	if err != nil {
		panic(harnessError("fresh oracle failed: " + err.Error()))
	}
	cfg := parseConfigDir(r.rt.Disk, prefix+"/etc/haproxy")
	if dir := os.Getenv("HAPSIM_DUMP"); dir != "" {
		dumpTo(filepath.Join(dir, fmt.Sprintf("%02d-fresh-perm-%v", r.oracleSeq, permuted)), r.FileSet(prefix))
	}
	for _, p := range r.rt.Disk.List(prefix + "/") {
		r.rt.Disk.Delete(p)
	}
	if cfg == nil {
		return nil
	}
	return cfg.NormalForm(nil)
}

// diffClass2 names the kind of section that differs (labels differ from checkFresh's).
func diffClass2(d string) string {
	switch {
	case len(d) > 16 && d[:16] == "section 'backend":
		return "backend-content"
	case len(d) > 17 && (d[:17] == "section 'frontend" || d[:15] == "section 'listen"):
		return "frontend-content"
	case len(d) > 17 && d[:17] == "section 'userlist":
		return "userlist-content"
	}
	if containsAny(d, "only in permuted-order", "only in canonical-order") {
		return "section-set"
	}
	return "other-content"
}

func containsAny(s string, subs ...string) bool {
	for _, x := range subs {
		for i := 0; i+len(x) <= len(s); i++ {
			if s[i:i+len(x)] == x {
				return true
			}
		}
	}
	return false
}
