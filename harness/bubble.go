package hapsim

import (
	"fmt"
	"runtime/debug"
	"strings"
	"testing"
	"testing/synctest"
)

func synctestWait() { synctest.Wait() }

// inBubble runs f inside a synctest bubble. The deadlock panic raised at the
// end of the bubble for goroutines that are legitimately parked forever
// (queues that were constructed but never started) is recovered; any other
// panic is returned.
func inBubble(t *testing.T, f func()) (perr any, stack string) {
	defer func() {
		if p := recover(); p != nil {
			s := fmt.Sprint(p)
			if strings.Contains(s, "deadlock") && strings.Contains(s, "bubble") {
				return
			}
			perr = p
			stack = string(debug.Stack())
		}
	}()
	synctest.Test(t, func(t *testing.T) {
		defer func() {
			if p := recover(); p != nil {
				perr = p
				stack = string(debug.Stack())
			}
		}()
		f()
	})
	return
}
