package hapsim

import (
	"os"
	"testing"

	rt "github.com/jcmoraisjr/haproxy-ingress/zzsimrt"
)

func TestDev(t *testing.T) {
	if os.Getenv("HAPSIM_DEV") == "" {
		t.Skip()
	}
	cfg := &RunConfig{Property: "DEV", Seed: 1, Ctl: CtlConfig{ReloadRetryMs: 30000, RateLimitUpdate: 0.5, WaitBeforeUpdateMs: 200, ReloadIntervalMs: 0, BackendShards: 0}, MapOrder: true}
	perr, stack := inBubble(t, func() {
		r := newRun(cfg, rt.NewTape(1), true)
		rt.SetCur(r.rt)
		defer rt.SetCur(nil)
		cs := certs()
		k := r.kube
		k.Seed(KService, mkService("a", "s1", nil, map[string]string{"app": "s1"}, []portSpec{{"http", 80, "8080"}}))
		k.Seed(KEndpoints, mkEndpoints("a", "s1", []epAddr{{"10.0.1.1", "s1-1", true}, {"10.0.1.2", "s1-2", true}, {"10.0.1.3", "s1-3", false}}, []epPort{{"http", 8080}}))
		k.Seed(KSecret, mkTLSSecret("a", "tls1", cs[0]))
		k.Seed(KIngressClass, mkIngressClass("haproxy", controllerName, ""))
		cls := "haproxy"
		k.Seed(KIngress, mkIngress("a", "ing1", 10, map[string]string{"haproxy-ingress.github.io/ssl-redirect": "false"}, &cls,
			[]ruleSpec{{"app.local", []pathSpec{{"/", "Prefix", "s1", "80"}, {"/app", "Exact", "s1", "http"}}}}, []tlsSpec{{[]string{"app.local"}, "tls1"}}, nil))
		k.Seed(KConfigMap, mkConfigMap(globalConfigMapName, map[string]string{"drain-support": "true"}))
		c, err := r.StartController()
		if err != nil {
			t.Fatal(err)
		}
		r.ctl = c
		r.settle()
		k.InitialList()
		ok := r.quiesce()
		t.Logf("quiesce=%v reloads=%d", ok, r.ha.Reloads)
		// change endpoints
		k.Apply(KEndpoints, "a/s1", mkEndpoints("a", "s1", []epAddr{{"10.0.1.1", "s1-1", true}, {"10.0.1.4", "s1-4", true}}, []epPort{{"http", 8080}}))
		ok = r.quiesce()
		t.Logf("quiesce=%v reloads=%d cmds=%v", ok, r.ha.Reloads, r.ha.AdminCmds)
		if _, err := r.FreshSync("/sim/oracle1"); err != nil {
			t.Fatal(err)
		}
		for _, l := range r.Trace {
			t.Log(l)
		}
		dumpFiles(r.FileSet("/sim/main"), os.Stdout)
		c.Stop()
		r.settle()
		r.rt.KillAll()
	})
	if perr != nil {
		t.Fatalf("panic: %v\n%s", perr, stack)
	}
}
