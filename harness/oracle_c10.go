package hapsim

// C10 — Gateway API routes attach only where class, listener and namespace
// rules allow. L2: the real controller with the Gateway API v1 watchers runs a
// generated history of GatewayClass / Gateway / HTTPRoute / TCPRoute objects
// (several listeners, parentRefs with and without namespace and sectionName,
// every allowedRoutes form, foreign-class and dangling gateways). At every
// sync point a reference evaluation of the admission rules, written from the
// Gateway API specification as the documentation restricts it, yields the
// expected routing table; requests are evaluated on the written configuration
// and compared: every admitted (listener, rule, hostname, match) routes to the
// rule's backend with the ready endpoints of its backendRefs, and nothing else
// is produced.

import (
	"fmt"
	"math/rand/v2"
	"sort"
	"strings"

	api "k8s.io/api/core/v1"
	metav1 "k8s.io/apimachinery/pkg/apis/meta/v1"
	"k8s.io/apimachinery/pkg/labels"
	gatewayv1 "sigs.k8s.io/gateway-api/apis/v1"
	gatewayv1alpha2 "sigs.k8s.io/gateway-api/apis/v1alpha2"

	"sigs.k8s.io/controller-runtime/pkg/client"
)

const gwController = "haproxy-ingress.github.io/controller"

// ---------------------------------------------------------------------------
// builders

func mkNamespace(name string, lbl map[string]string) *api.Namespace {
	return &api.Namespace{ObjectMeta: metav1.ObjectMeta{Name: name, Labels: lbl, CreationTimestamp: metav1.Unix(946681200, 0)}}
}

func mkGatewayClass(name, controller string) *gatewayv1.GatewayClass {
	return &gatewayv1.GatewayClass{ObjectMeta: metav1.ObjectMeta{Name: name, CreationTimestamp: metav1.Unix(946681200, 0)},
		Spec: gatewayv1.GatewayClassSpec{ControllerName: gatewayv1.GatewayController(controller)}}
}

type gwListener struct {
	Name     string
	Port     int
	Protocol string
	Hostname string
	Kinds    []string // allowed kinds; empty = all
	From     string   // Same | All | Selector
	Selector map[string]string
	Exprs    []metav1.LabelSelectorRequirement
}

func mkGateway(ns, name, class string, created int, ls []gwListener) *gatewayv1.Gateway {
	gw := &gatewayv1.Gateway{ObjectMeta: meta(ns, name, created), Spec: gatewayv1.GatewaySpec{GatewayClassName: gatewayv1.ObjectName(class)}}
	for _, l := range ls {
		from := gatewayv1.FromNamespaces(l.From)
		ar := &gatewayv1.AllowedRoutes{Namespaces: &gatewayv1.RouteNamespaces{From: &from}}
		if l.From == "Selector" {
			ar.Namespaces.Selector = &metav1.LabelSelector{MatchLabels: l.Selector, MatchExpressions: l.Exprs}
		}
		for _, k := range l.Kinds {
			// "group/Kind" names a kind of another (or the explicit Gateway API) group
			if grp, kind, ok := strings.Cut(k, "/"); ok {
				gg := gatewayv1.Group(grp)
				ar.Kinds = append(ar.Kinds, gatewayv1.RouteGroupKind{Group: &gg, Kind: gatewayv1.Kind(kind)})
				continue
			}
			ar.Kinds = append(ar.Kinds, gatewayv1.RouteGroupKind{Kind: gatewayv1.Kind(k)})
		}
		gl := gatewayv1.Listener{Name: gatewayv1.SectionName(l.Name), Port: gatewayv1.PortNumber(l.Port), Protocol: gatewayv1.ProtocolType(l.Protocol), AllowedRoutes: ar}
		if l.Hostname != "" {
			h := gatewayv1.Hostname(l.Hostname)
			gl.Hostname = &h
		}
		gw.Spec.Listeners = append(gw.Spec.Listeners, gl)
	}
	return gw
}

type gwParent struct {
	NS, Name, Section string
	Kind, Group       string
}

type gwBackendRef struct {
	Name   string
	NS     string // backendRef.namespace, "" = unset
	Port   int    // 0 = no port
	Weight int    // -1 = unset
}

type gwRule struct {
	Matches  [][2]string // path, type (Exact | PathPrefix)
	Backends []gwBackendRef
}

func mkParentRefs(ps []gwParent) []gatewayv1.ParentReference {
	var out []gatewayv1.ParentReference
	for _, p := range ps {
		pr := gatewayv1.ParentReference{Name: gatewayv1.ObjectName(p.Name)}
		if p.NS != "" {
			ns := gatewayv1.Namespace(p.NS)
			pr.Namespace = &ns
		}
		if p.Section != "" {
			s := gatewayv1.SectionName(p.Section)
			pr.SectionName = &s
		}
		if p.Kind != "" {
			k := gatewayv1.Kind(p.Kind)
			pr.Kind = &k
		}
		if p.Group != "" {
			g := gatewayv1.Group(p.Group)
			pr.Group = &g
		}
		out = append(out, pr)
	}
	return out
}

func mkBackendRefs(bs []gwBackendRef) []gatewayv1.BackendRef {
	var out []gatewayv1.BackendRef
	for _, b := range bs {
		br := gatewayv1.BackendRef{BackendObjectReference: gatewayv1.BackendObjectReference{Name: gatewayv1.ObjectName(b.Name)}}
		if b.NS != "" {
			ns := gatewayv1.Namespace(b.NS)
			br.Namespace = &ns
		}
		if b.Port > 0 {
			p := gatewayv1.PortNumber(b.Port)
			br.Port = &p
		}
		if b.Weight >= 0 {
			w := int32(b.Weight)
			br.Weight = &w
		}
		out = append(out, br)
	}
	return out
}

func mkHTTPRoute(ns, name string, created int, parents []gwParent, hostnames []string, rules []gwRule) *gatewayv1.HTTPRoute {
	r := &gatewayv1.HTTPRoute{ObjectMeta: meta(ns, name, created)}
	r.Spec.ParentRefs = mkParentRefs(parents)
	for _, h := range hostnames {
		r.Spec.Hostnames = append(r.Spec.Hostnames, gatewayv1.Hostname(h))
	}
	for _, ru := range rules {
		hr := gatewayv1.HTTPRouteRule{}
		for _, m := range ru.Matches {
			v := m[0]
			t := gatewayv1.PathMatchType(m[1])
			hr.Matches = append(hr.Matches, gatewayv1.HTTPRouteMatch{Path: &gatewayv1.HTTPPathMatch{Type: &t, Value: &v}})
		}
		for _, b := range mkBackendRefs(ru.Backends) {
			hr.BackendRefs = append(hr.BackendRefs, gatewayv1.HTTPBackendRef{BackendRef: b})
		}
		r.Spec.Rules = append(r.Spec.Rules, hr)
	}
	return r
}

func mkTCPRoute(ns, name string, created int, parents []gwParent, rules []gwRule) *gatewayv1alpha2.TCPRoute {
	r := &gatewayv1alpha2.TCPRoute{ObjectMeta: meta(ns, name, created)}
	r.Spec.ParentRefs = mkParentRefs(parents)
	for _, ru := range rules {
		r.Spec.Rules = append(r.Spec.Rules, gatewayv1alpha2.TCPRouteRule{BackendRefs: mkBackendRefs(ru.Backends)})
	}
	return r
}

// ---------------------------------------------------------------------------
// generator

type gwGen struct {
	r          *rand.Rand
	created    int
	generation int64
}

func (g *gwGen) pick(n int) int            { return g.r.IntN(n) }
func (g *gwGen) of(xs ...string) string    { return xs[g.r.IntN(len(xs))] }
func (g *gwGen) chance(a, b int) bool      { return g.r.IntN(b) < a }
func (g *gwGen) next() int                 { g.created++; return g.created - g.pick(2) }
func (g *gwGen) nsOf() string              { return g.of("a", "b", "c") }
func (g *gwGen) gwName() string            { return g.of("gw1", "gw2") }
func (g *gwGen) class() string             { return g.of("haproxy", "haproxy", "haproxy", "foreign", "nowhere") }
func (g *gwGen) listenerName(i int) string { return fmt.Sprintf("l%d", i+1) }

// gen stamps metadata.generation: the API server bumps it on every spec change of these resources.
func (g *gwGen) gen(o client.Object) client.Object {
	g.generation++
	o.SetGeneration(g.generation)
	return o
}

func (g *gwGen) listeners() []gwListener {
	n := 1 + g.pick(3)
	var out []gwListener
	for i := 0; i < n; i++ {
		l := gwListener{Name: g.listenerName(i), Port: 80, Protocol: "HTTP"}
		if g.chance(1, 4) {
			l.Protocol, l.Port = "TCP", 7100+g.pick(3)
		}
		switch g.pick(6) {
		case 0:
			l.Hostname = g.of("gw.local", "app.local")
		case 1:
			l.Hostname = "*"
		}
		switch g.pick(8) {
		case 0:
			l.Kinds = []string{"HTTPRoute"}
		case 1:
			l.Kinds = []string{"TCPRoute"}
		case 2:
			l.Kinds = []string{"HTTPRoute", "TCPRoute"}
		case 3:
			l.Kinds = []string{"other.k8s.io/FooRoute", gatewayv1.GroupName + "/HTTPRoute", "TCPRoute"}
		case 4:
			l.Kinds = []string{"other.k8s.io/HTTPRoute", "other.k8s.io/TCPRoute"}
		case 5:
			l.Kinds = []string{"HTTPRoute", "other.k8s.io/FooRoute"}
		}
		switch g.pick(4) {
		case 0, 1:
			l.From = "Same"
		case 2:
			l.From = "All"
		case 3:
			l.From = "Selector"
			l.Selector = map[string]string{"team": g.of("red", "blue")}
			if g.chance(1, 5) {
				l.Selector = map[string]string{"team": "red", "env": "prod"}
			}
			if g.chance(1, 2) {
				// matchExpressions, alone or on top of matchLabels
				if g.chance(1, 2) {
					l.Selector = nil
				}
				switch g.pick(4) {
				case 0:
					l.Exprs = []metav1.LabelSelectorRequirement{{Key: "team", Operator: metav1.LabelSelectorOpIn, Values: []string{g.of("red", "blue")}}}
				case 1:
					l.Exprs = []metav1.LabelSelectorRequirement{{Key: "env", Operator: metav1.LabelSelectorOpNotIn, Values: []string{"prod"}}}
				case 2:
					l.Exprs = []metav1.LabelSelectorRequirement{{Key: "env", Operator: metav1.LabelSelectorOpExists}}
				case 3:
					l.Exprs = []metav1.LabelSelectorRequirement{{Key: "env", Operator: metav1.LabelSelectorOpDoesNotExist}, {Key: "team", Operator: metav1.LabelSelectorOpIn, Values: []string{"red", "blue"}}}
				}
			}
		}
		out = append(out, l)
	}
	return out
}

func (g *gwGen) parents(ns string) []gwParent {
	n := 1 + g.pick(2)
	var out []gwParent
	for i := 0; i < n; i++ {
		p := gwParent{Name: g.gwName()}
		switch g.pick(4) {
		case 0:
			p.NS = g.nsOf()
		case 1:
			p.NS = ns
		}
		if g.chance(1, 3) {
			p.Section = g.listenerName(g.pick(3))
		}
		if g.chance(1, 12) {
			p.Kind = g.of("Service", "Gateway")
		}
		if g.chance(1, 12) {
			p.Group = g.of("example.com", gatewayv1.GroupName)
		}
		out = append(out, p)
	}
	return out
}

var gwSvcs = map[string][]string{"a": {"s1", "s2"}, "b": {"s1", "s3"}, "c": {"s1"}}

func (g *gwGen) backends(ns string) []gwBackendRef {
	n := 1 + g.pick(2)
	var out []gwBackendRef
	for i := 0; i < n; i++ {
		names := append([]string{"nosvc"}, gwSvcs[ns]...)
		b := gwBackendRef{Name: names[g.pick(len(names))], Port: 80, Weight: -1}
		switch g.pick(8) {
		case 0:
			b.Port = 0
		case 1:
			b.Port = 81
		}
		switch g.pick(4) {
		case 0:
			b.Weight = 0
		case 1:
			b.Weight = 1 + g.pick(3)
		}
		if g.chance(1, 6) {
			// a reference into another namespace (no ReferenceGrant exists): a service name that only the
			// other namespace has, so "not resolved" and "resolved in the namespace of the route" coincide
			if ns == "b" {
				b.Name, b.NS = "s2", "a"
			} else {
				b.Name, b.NS = "s3", "b"
			}
		}
		out = append(out, b)
	}
	return out
}

func (g *gwGen) httpRoute(ns, name string) *gatewayv1.HTTPRoute {
	var hosts []string
	for i, n := 0, g.pick(3); i < n; i++ {
		hosts = append(hosts, g.of("app.local", "api.local", "web.local", "*"))
	}
	var rules []gwRule
	for i, n := 0, 1+g.pick(2); i < n; i++ {
		ru := gwRule{Backends: g.backends(ns)}
		for j, m := 0, g.pick(3); j < m; j++ {
			ru.Matches = append(ru.Matches, [2]string{g.of("/", "/app", "/app/sub", "/api"), g.of("Exact", "PathPrefix", "PathPrefix")})
		}
		rules = append(rules, ru)
	}
	return mkHTTPRoute(ns, name, g.next(), g.parents(ns), hosts, rules)
}

func (g *gwGen) tcpRoute(ns, name string) *gatewayv1alpha2.TCPRoute {
	return mkTCPRoute(ns, name, g.next(), g.parents(ns), []gwRule{{Backends: g.backends(ns)}})
}

func genGateway(seed uint64, tier string) *RunConfig { return genGatewayWorld(seed, tier, false) }

// genGatewayWorld: with xns the Services carry basic authentication secrets of another namespace and the
// global ConfigMap opens or closes that class (the Gateway converter reads Service annotations too).
func genGatewayWorld(seed uint64, tier string, xns bool) *RunConfig {
	r := rand.New(rand.NewPCG(seed, 0xc10))
	g := &gwGen{r: r}
	ctl := sampleCtl(r)
	ctl.Gateway, ctl.DefaultService, ctl.DefaultSSLCertificate = true, "", ""
	rc := &RunConfig{Property: "C10", Profile: "gateway", Seed: seed, Ctl: ctl, World: &World{}, MapOrder: r.IntN(2) == 0, Lagfree: r.IntN(2) == 0, MidSched: r.IntN(3) == 0}
	add := func(o client.Object) {
		rc.World.Objects = append(rc.World.Objects, wobj(o))
	}
	global := map[string]string{"ssl-redirect": "false"}
	if xns {
		global["cross-namespace-secrets-passwd"] = g.of("allow", "allow", "deny")
		add(mkOpaqueSecret("a", "auth", map[string][]byte{"auth": []byte("usra::cleara\n")}))
		add(mkOpaqueSecret("b", "auth", map[string][]byte{"auth": []byte("usrb::clearb\n")}))
	}
	add(mkConfigMap(globalConfigMapName, global))
	add(mkNamespace("a", map[string]string{"team": "red", "env": "prod"}))
	add(mkNamespace("b", map[string]string{"team": "blue"}))
	if g.chance(3, 4) {
		add(mkNamespace("c", map[string]string{"team": "red"}))
	}
	add(g.gen(mkGatewayClass("haproxy", gwController)))
	add(g.gen(mkGatewayClass("foreign", g.of("example.com/other", "example.com/other", gwController+"/internal"))))
	idx := 0
	for _, ns := range []string{"a", "b", "c"} {
		for _, s := range gwSvcs[ns] {
			idx++
			if g.chance(1, 8) {
				continue
			}
			var svcAnn map[string]string
			if xns && g.chance(1, 2) {
				svcAnn = map[string]string{annPrefix + "auth-secret": g.of("a/auth", "b/auth", "auth")}
			}
			add(mkService(ns, s, svcAnn, map[string]string{"app": s}, []portSpec{{"http", 80, "8080"}}))
			var addrs []epAddr
			for k, n := 0, g.pick(4); k < n; k++ {
				ip := fmt.Sprintf("10.2.%d.%d", idx, k+1)
				pod := fmt.Sprintf("%s-%d", s, k+1)
				addrs = append(addrs, epAddr{IP: ip, Pod: pod, Ready: !g.chance(1, 6)})
				add(mkPod(ns, pod, ip, map[string]string{"app": s}, false, []epPort{{"http", 8080}}))
			}
			add(mkEndpoints(ns, s, addrs, []epPort{{"http", 8080}}))
		}
	}
	gws := map[string]bool{}
	for i, n := 0, 1+g.pick(3); i < n; i++ {
		ns, name := g.of("a", "b"), g.gwName()
		if gws[ns+"/"+name] {
			continue
		}
		gws[ns+"/"+name] = true
		add(g.gen(mkGateway(ns, name, g.class(), g.next(), g.listeners())))
	}
	routeNames := []string{"r1", "r2", "r3"}
	for i, n := 0, 1+g.pick(4); i < n; i++ {
		ns := g.nsOf()
		if g.chance(1, 4) {
			add(g.gen(g.tcpRoute(ns, "t"+fmt.Sprint(1+g.pick(2)))))
		} else {
			add(g.gen(g.httpRoute(ns, routeNames[g.pick(3)])))
		}
	}
	// a companion Ingress of our class on hosts the routes use (the default host among them), under a path
	// no probe asks for: its partial syncs rebuild hosts that Gateway API routes share
	companion := func() client.Object {
		ns := g.of("a", "b")
		hosts := []string{"", "app.local", "web.local", "gw.local"}
		var rules []ruleSpec
		for i, n := 0, 1+g.pick(2); i < n; i++ {
			rules = append(rules, ruleSpec{Host: hosts[g.pick(len(hosts))], Paths: []pathSpec{{Path: "/ing", Svc: "s1", Port: "80"}}})
		}
		ann := map[string]string{"kubernetes.io/ingress.class": ingressClassName, annPrefix + "balance-algorithm": g.of("leastconn", "roundrobin", "first")}
		if g.chance(1, 4) {
			// a TCP service of the Ingress kind on a port TCPRoutes use: the route, which a full sync configures
			// first, keeps the port whatever the history
			ann[annPrefix+"tcp-service-port"] = g.of("7100", "7101", "7102")
			// (the default host of the port, which a TCPRoute also is, or an SNI hostname next to it)
			rules = []ruleSpec{{Host: g.of("", "", "sni.local"), Paths: []pathSpec{{Path: "/", Svc: "s1", Port: "80"}}}}
		}
		return g.gen(mkIngress(ns, "companion", 1, ann, nil, rules, nil, nil))
	}
	withIngress := g.chance(1, 2)
	if withIngress && g.chance(2, 3) {
		add(companion())
	}
	// history
	mn, mx := tierOps(tier, 4, 16)
	nops := mn + g.pick(mx-mn+1)
	for i := 0; i < nops; i++ {
		if xns && g.chance(1, 6) {
			// the users of a basic authentication secret change
			ns := g.of("a", "b")
			rc.Ops = append(rc.Ops, applyOp(mkOpaqueSecret(ns, "auth", map[string][]byte{"auth": []byte(fmt.Sprintf("usr%s::clear%d\n", ns, g.next()))}), "rotate users"))
			continue
		}
		if xns && g.chance(1, 5) {
			// the permission is granted or revoked while the controller runs
			global["cross-namespace-secrets-passwd"] = g.of("allow", "deny", "deny")
			rc.Ops = append(rc.Ops, applyOp(mkConfigMap(globalConfigMapName, global), "global config"))
			continue
		}
		if withIngress && g.chance(1, 4) {
			if g.chance(1, 5) {
				rc.Ops = append(rc.Ops, deleteOp(KIngress, g.of("a", "b")+"/companion", "companion ingress delete"))
			} else {
				rc.Ops = append(rc.Ops, applyOp(companion(), "companion ingress"))
			}
			continue
		}
		switch g.pick(10) {
		case 0, 1:
			ns := g.of("a", "b")
			rc.Ops = append(rc.Ops, applyOp(g.gen(mkGateway(ns, g.gwName(), g.class(), g.next(), g.listeners())), "gateway"))
		case 2:
			rc.Ops = append(rc.Ops, deleteOp(KGateway, g.of("a", "b")+"/"+g.gwName(), "gateway delete"))
		case 3, 4, 5:
			ns := g.nsOf()
			rc.Ops = append(rc.Ops, applyOp(g.gen(g.httpRoute(ns, routeNames[g.pick(3)])), "httproute"))
		case 6:
			rc.Ops = append(rc.Ops, deleteOp(KHTTPRoute, g.nsOf()+"/"+routeNames[g.pick(3)], "httproute delete"))
		case 7:
			ns := g.nsOf()
			rc.Ops = append(rc.Ops, applyOp(g.gen(g.tcpRoute(ns, "t"+fmt.Sprint(1+g.pick(2)))), "tcproute"))
		case 8:
			if g.chance(1, 2) {
				rc.Ops = append(rc.Ops, applyOp(g.gen(mkGatewayClass("haproxy", g.of(gwController, "example.com/other", gwController+"/internal"))), "class controller"))
			} else {
				rc.Ops = append(rc.Ops, applyOp(g.gen(mkGatewayClass("nowhere", g.of(gwController, "example.com/other", gwController+"/internal"))), "class appears"))
			}
		case 9:
			rc.Ops = append(rc.Ops, Op{Type: "advance", Ms: 500 + g.pick(3000)})
		}
		if g.chance(1, 3) {
			rc.Ops = append(rc.Ops, Op{Type: "quiesce"})
		}
	}
	rc.Ops = append(rc.Ops, Op{Type: "quiesce", Note: "final"})
	return rc
}

// ---------------------------------------------------------------------------
// reference

type gwExpect struct {
	rules    []refRule             // host "" = default host ("*" or no hostname)
	backends map[string][]gwTarget // backend id -> targets
	tcp      map[int]string        // port -> backend id
	facts    []string
}

type gwTarget struct {
	ns, svc string
	weight  int
}

func (r *Run) gwClassOurs(name string) bool {
	c, _ := r.kube.Truth(KGatewayClass, name).(*gatewayv1.GatewayClass)
	return c != nil && string(c.Spec.ControllerName) == gwController
}

// gwAdmits: the listener admits a route of that kind living in routeNS.
func (r *Run) gwAdmits(gw *gatewayv1.Gateway, l *gatewayv1.Listener, kind, routeNS string) bool {
	ar := l.AllowedRoutes
	if ar == nil || ar.Namespaces == nil || ar.Namespaces.From == nil {
		return false // (never generated: the CRD defaults fill them)
	}
	if len(ar.Kinds) > 0 {
		ok := false
		for _, k := range ar.Kinds {
			if (k.Group == nil || string(*k.Group) == gatewayv1.GroupName) && string(k.Kind) == kind {
				ok = true
			}
		}
		if !ok {
			return false
		}
	}
	{
		// Gateway API: "When unspecified or empty, the kinds of Routes selected are determined using the Listener
		// protocol", and listed kinds must be compatible with it
		switch l.Protocol {
		case gatewayv1.HTTPProtocolType, gatewayv1.HTTPSProtocolType:
			if kind != "HTTPRoute" {
				return false
			}
		case gatewayv1.TCPProtocolType:
			if kind != "TCPRoute" {
				return false
			}
		}
	}
	switch *ar.Namespaces.From {
	case gatewayv1.NamespacesFromAll:
		return true
	case gatewayv1.NamespacesFromSame:
		return routeNS == gw.Namespace
	case gatewayv1.NamespacesFromSelector:
		if ar.Namespaces.Selector == nil {
			return false
		}
		ns, _ := r.kube.Truth(KNamespace, routeNS).(*api.Namespace)
		if ns == nil {
			return false
		}
		sel, err := metav1.LabelSelectorAsSelector(ar.Namespaces.Selector)
		return err == nil && sel.Matches(labels.Set(ns.Labels))
	}
	return false
}

// gwResolveBackend: the valid backendRefs of a rule (service of the route's
// namespace with that port); nil when none is usable.
func (r *Run) gwResolveBackend(ns string, refs []gatewayv1.BackendRef) []gwTarget {
	var out []gwTarget
	for _, b := range refs {
		if b.Port == nil {
			continue
		}
		if b.Namespace != nil && string(*b.Namespace) != ns {
			// a route never reaches the services of another namespace (no ReferenceGrant support)
			r.probe("c10_foreign_backendref")
			continue
		}
		if _, sp := r.findServicePort(ns, string(b.Name), fmt.Sprint(*b.Port)); sp == nil {
			continue
		}
		w := 1
		if b.Weight != nil {
			w = int(*b.Weight)
		}
		out = append(out, gwTarget{ns: ns, svc: string(b.Name), weight: w})
	}
	return out
}

func sortedByCreation[T interface {
	GetCreationTimestamp() metav1.Time
	GetNamespace() string
	GetName() string
}](xs []T) {
	sort.Slice(xs, func(i, j int) bool {
		a, b := xs[i], xs[j]
		if !a.GetCreationTimestamp().Time.Equal(b.GetCreationTimestamp().Time) {
			return a.GetCreationTimestamp().Time.Before(b.GetCreationTimestamp().Time)
		}
		return a.GetNamespace()+"/"+a.GetName() < b.GetNamespace()+"/"+b.GetName()
	})
}

// gwParents resolves the parentRefs of a route to the gateways of this controller.
func (r *Run) gwParents(routeNS string, refs []gatewayv1.ParentReference) []struct {
	gw      *gatewayv1.Gateway
	section *gatewayv1.SectionName
} {
	var out []struct {
		gw      *gatewayv1.Gateway
		section *gatewayv1.SectionName
	}
	for _, p := range refs {
		if p.Group != nil && *p.Group != "" && string(*p.Group) != gatewayv1.GroupName {
			continue
		}
		if p.Kind != nil && *p.Kind != "" && string(*p.Kind) != "Gateway" {
			continue
		}
		ns := routeNS
		if p.Namespace != nil && *p.Namespace != "" {
			ns = string(*p.Namespace)
		}
		gw, _ := r.kube.Truth(KGateway, ns+"/"+string(p.Name)).(*gatewayv1.Gateway)
		if gw == nil || !r.gwClassOurs(string(gw.Spec.GatewayClassName)) {
			continue
		}
		out = append(out, struct {
			gw      *gatewayv1.Gateway
			section *gatewayv1.SectionName
		}{gw, p.SectionName})
	}
	return out
}

func (r *Run) gwReference() *gwExpect {
	ex := &gwExpect{backends: map[string][]gwTarget{}, tcp: map[int]string{}}
	declared := map[string]bool{}
	var routes []*gatewayv1.HTTPRoute
	for _, k := range r.kube.TruthKeys(KHTTPRoute) {
		routes = append(routes, r.kube.Truth(KHTTPRoute, k).(*gatewayv1.HTTPRoute))
	}
	sortedByCreation(routes)
	for _, rt := range routes {
		for _, p := range r.gwParents(rt.Namespace, rt.Spec.ParentRefs) {
			for li := range p.gw.Spec.Listeners {
				l := &p.gw.Spec.Listeners[li]
				if p.section != nil && *p.section != l.Name {
					continue
				}
				if !r.gwAdmits(p.gw, l, "HTTPRoute", rt.Namespace) {
					continue
				}
				ex.facts = append(ex.facts, fmt.Sprintf("%s/%s admitted by %s/%s listener %s", rt.Namespace, rt.Name, p.gw.Namespace, p.gw.Name, l.Name))
				for idx, rule := range rt.Spec.Rules {
					var refs []gatewayv1.BackendRef
					for _, b := range rule.BackendRefs {
						refs = append(refs, b.BackendRef)
					}
					id := fmt.Sprintf("%s_%s__rule%d", rt.Namespace, rt.Name, idx)
					if _, known := ex.backends[id]; !known {
						tg := r.gwResolveBackend(rt.Namespace, refs)
						if len(tg) == 0 {
							continue
						}
						ex.backends[id] = tg
					}
					var hosts []string
					if l.Hostname == nil || *l.Hostname == "" || *l.Hostname == "*" {
						for _, h := range rt.Spec.Hostnames {
							hosts = append(hosts, string(h))
						}
						if len(hosts) == 0 {
							hosts = []string{"*"}
						}
					} else {
						hosts = []string{string(*l.Hostname)}
					}
					matches := rule.Matches
					if len(matches) == 0 {
						matches = []gatewayv1.HTTPRouteMatch{{}}
					}
					for _, m := range matches {
						path, typ := "/", "prefix"
						if m.Path != nil {
							if m.Path.Value != nil && *m.Path.Value != "" {
								path = *m.Path.Value
							}
							if m.Path.Type != nil && *m.Path.Type == gatewayv1.PathMatchExact {
								typ = "exact"
							}
						}
						for _, h := range hosts {
							if h == "*" {
								h = ""
							}
							key := h + "#" + path + "#" + typ
							if declared[key] {
								continue // the first route, by creation time then name, keeps the path
							}
							declared[key] = true
							ex.rules = append(ex.rules, refRule{host: h, path: path, typ: typ, ns: rt.Namespace, svc: id, ing: rt.Namespace + "/" + rt.Name})
						}
					}
				}
			}
		}
	}
	var troutes []*gatewayv1alpha2.TCPRoute
	for _, k := range r.kube.TruthKeys(KTCPRoute) {
		troutes = append(troutes, r.kube.Truth(KTCPRoute, k).(*gatewayv1alpha2.TCPRoute))
	}
	sortedByCreation(troutes)
	for _, rt := range troutes {
		for _, p := range r.gwParents(rt.Namespace, rt.Spec.ParentRefs) {
			for li := range p.gw.Spec.Listeners {
				l := &p.gw.Spec.Listeners[li]
				if p.section != nil && *p.section != l.Name {
					continue
				}
				if !r.gwAdmits(p.gw, l, "TCPRoute", rt.Namespace) {
					continue
				}
				for idx, rule := range rt.Spec.Rules {
					id := fmt.Sprintf("%s_%s__tcprule%d", rt.Namespace, rt.Name, idx)
					if _, known := ex.backends[id]; !known {
						tg := r.gwResolveBackend(rt.Namespace, rule.BackendRefs)
						if len(tg) == 0 {
							continue
						}
						ex.backends[id] = tg
					}
					if _, taken := ex.tcp[int(l.Port)]; !taken {
						ex.tcp[int(l.Port)] = id
					}
				}
			}
		}
	}
	return ex
}

func (r *Run) checkGateway() {
	disk := r.diskConfig()
	if disk == nil {
		return
	}
	r.probe("model_compared")
	ex := r.gwReference()
	if len(ex.rules) > 0 {
		r.probe("c10_admitted_http")
	}
	if len(ex.tcp) > 0 {
		r.probe("c10_admitted_tcp")
	}
	// every route object that exists although nothing admits it
	nroutes := len(r.kube.TruthKeys(KHTTPRoute)) + len(r.kube.TruthKeys(KTCPRoute))
	if nroutes > 0 && len(ex.facts) == 0 && len(ex.tcp) == 0 {
		r.probe("c10_nothing_admitted")
	}
	// (1) backends: exactly the expected ones, with the expected servers
	for name, be := range disk.Backends {
		if !strings.Contains(name, "__rule") && !strings.Contains(name, "__tcprule") {
			continue
		}
		if _, ok := ex.backends[name]; !ok {
			r.violate(&Violation{Property: "C10", Oracle: "backends", Class: "backend-of-non-admitted-route",
				Witness: fmt.Sprintf("backend %s is configured but no admitted route rule produces it; admitted: %v", name, ex.facts)})
			return
		}
		_ = be
	}
	for name, targets := range ex.backends {
		be := disk.Backends[name]
		if be == nil {
			// a backend only exists when something links to it
			linked := false
			for _, ru := range ex.rules {
				if ru.svc == name {
					linked = true
				}
			}
			for _, b := range ex.tcp {
				if b == name {
					linked = true
				}
			}
			if linked {
				r.violate(&Violation{Property: "C10", Oracle: "backends", Class: "admitted-route-missing",
					Witness: fmt.Sprintf("backend %s of an admitted route rule is not configured; admitted: %v", name, ex.facts)})
				return
			}
			continue
		}
		want := map[string]bool{}
		zero := map[string]bool{}
		for _, t := range targets {
			ready, _ := r.expectedServers(t.ns, t.svc, "80")
			for _, a := range ready {
				want[a] = true
				if t.weight == 0 {
					zero[a] = true
				}
			}
		}
		got := map[string]int{}
		for _, s := range be.Servers {
			if !s.IsEmptySlot() && !s.Disabled {
				got[fmt.Sprintf("%s:%d", s.Addr, s.Port)] = s.Weight
			}
		}
		if strings.Join(sortedKeys(want), ",") != strings.Join(sortedKeys(got), ",") {
			r.violate(&Violation{Property: "C10", Oracle: "backends", Class: "wrong-servers",
				Witness: fmt.Sprintf("backend %s has servers %v, its backendRefs resolve to %v", name, sortedKeys(got), sortedKeys(want))})
			return
		}
		for a, w := range got {
			if (w == 0) != zero[a] && !(zero[a] && w == 0) {
				// a server shared by a zero-weight and a weighted ref may carry either
				shared := false
				for _, t := range targets {
					if t.weight != 0 {
						ready, _ := r.expectedServers(t.ns, t.svc, "80")
						for _, x := range ready {
							if x == a && zero[a] {
								shared = true
							}
						}
					}
				}
				if !shared {
					r.violate(&Violation{Property: "C10", Oracle: "backends", Class: "wrong-weight",
						Witness: fmt.Sprintf("backend %s server %s has weight %d; configured weight zero: %v", name, a, w, zero[a])})
					return
				}
			}
		}
	}
	// (2) routing: requests against the expected table
	hosts := map[string]bool{"unknown.host": true, "app.local": true, "api.local": true, "web.local": true, "gw.local": true}
	paths := []string{"/", "/app", "/app/", "/app/sub", "/app/sub/zz", "/appzz", "/api", "/api/zz", "/zz"}
	for _, h := range sortedKeys(hosts) {
		for _, p := range paths {
			req := Req{Host: h, Path: p}
			out := disk.Eval(req, nil)
			if len(out.Unknown) > 0 {
				panic(harnessError(fmt.Sprintf("evaluator met an unmodelled construct for %s: %v", req, out.Unknown)))
			}
			r.probe("c10_requests")
			cands := bestRules(ex.rules, h, p)
			if len(cands) == 0 {
				cands = bestRules(ex.rules, "", p)
			}
			if len(cands) == 0 {
				if out.Kind == "backend" {
					r.violate(&Violation{Property: "C10", Oracle: "routing", Class: "request-served-without-admitted-route",
						Witness: fmt.Sprintf("%s is forwarded to %s although no admitted route matches it; admitted: %v", req, out, ex.facts)})
					return
				}
				continue
			}
			ok := false
			for _, c := range cands {
				if out.Kind == "backend" && out.Backend == c.svc {
					ok = true
				}
			}
			if !ok {
				r.violate(&Violation{Property: "C10", Oracle: "routing", Class: "admitted-route-not-served",
					Witness: fmt.Sprintf("%s: expected backend %s (%s %s%s of route %s), got %s; admitted: %v", req, cands[0].svc, cands[0].typ, cands[0].host, cands[0].path, cands[0].ing, out, ex.facts)})
				return
			}
		}
	}
	// (3) TCP services
	gotTCP := map[int]string{}
	for _, s := range disk.Sections {
		if (s.Kind == "frontend" || s.Kind == "listen") && strings.HasPrefix(s.Name, "_front_tcp_") || strings.HasPrefix(s.Name, "_tcp_") {
			var port int
			fmt.Sscanf(s.Name[strings.LastIndexByte(s.Name, '_')+1:], "%d", &port)
			target := ""
			// (with SNI hostnames on the port the default host, which a TCPRoute is, is the default_backend and the
			// hostnames are looked up in a map first)
			for _, l := range s.Lines {
				if l.Tok[0] == "default_backend" && len(l.Tok) > 1 {
					target = l.Tok[1]
				}
			}
			for _, l := range s.Lines {
				if l.Tok[0] == "use_backend" && len(l.Tok) > 1 && target == "" && !strings.HasPrefix(l.Tok[1], "%[") {
					target = l.Tok[1]
				}
			}
			gotTCP[port] = target
		}
	}
	for port, want := range ex.tcp {
		if gotTCP[port] != want {
			r.violate(&Violation{Property: "C10", Oracle: "tcp", Class: "tcp-route-not-configured",
				Witness: fmt.Sprintf("TCP port %d should reach backend %s (admitted TCPRoute), the configuration has %q", port, want, gotTCP[port])})
			return
		}
	}
	for port, got := range gotTCP {
		if _, ok := ex.tcp[port]; !ok && !strings.Contains(got, "__") {
			continue // the TCP service of the companion Ingress (its backend is not a route's)
		}
		if _, ok := ex.tcp[port]; !ok {
			r.violate(&Violation{Property: "C10", Oracle: "tcp", Class: "tcp-service-of-non-admitted-route",
				Witness: fmt.Sprintf("TCP port %d is configured (backend %s) but no admitted TCPRoute targets it", port, got)})
			return
		}
	}
}

func init() {
	register(&Profile{Name: "gateway", Prop: "C10", Weight: 1,
		Oracles: OracleSet{Property: "C10", Gateway: true},
		Build:   genGateway})
	// the Gateway API worlds against a fresh controller, with references into other namespaces on the Services
	register(&Profile{Name: "churn-gateway", Prop: "C01", Weight: 1,
		Oracles: OracleSet{Property: "C01", FreshAtSync: true, EffectiveAtSync: true},
		Build: func(seed uint64, tier string) *RunConfig {
			rc := genGatewayWorld(seed, tier, true)
			rc.Property, rc.Profile = "C01", "churn-gateway"
			return rc
		}})
	// cross-namespace isolation of what the Gateway converter reads through Service annotations
	register(&Profile{Name: "xns-gateway", Prop: "C09", Weight: 1,
		Oracles: OracleSet{Property: "C09", CrossNS: true},
		Build: func(seed uint64, tier string) *RunConfig {
			rc := genGatewayWorld(seed, tier, true)
			rc.Property, rc.Profile = "C09", "xns-gateway"
			return rc
		}})
	// the Gateway API worlds under the loadability oracle (two backendRefs of one rule may select the same pods)
	register(&Profile{Name: "stress-gateway", Prop: "C07", Weight: 1,
		Oracles: OracleSet{Property: "C07", Loadable: true},
		Build: func(seed uint64, tier string) *RunConfig {
			rc := genGateway(seed, tier)
			rc.Property, rc.Profile = "C07", "stress-gateway"
			return rc
		}})
}
