package hapsim

// C04 — path precedence in generated maps: exact first, then the longest
// declared path. L0 through the map-order seam: hatypes.CreateMaps /
// AddHostnamePathMapping / MatchFiles are called directly; rebuildMatchFiles
// ranges a Go map while threading shared list state through the loop, so the
// emitted layout depends on iteration order, which the tape decides.

import (
	"fmt"
	"math/rand/v2"
	"strings"

	hatypes "github.com/jcmoraisjr/haproxy-ingress/pkg/haproxy/types"
)

var c04Paths = []string{"/", "/app", "/app/", "/app1", "/app/sub", "/App", "/app/sub/x", "/ap", "/api", "/App/Sub", "/a/b/c/d", "/a/b/c", "/a/b", "/a", "/a/a", "/a/c", "/app/other", "/x", "/x/y"}
var c04Hosts = []string{"d1.local", "d2.local", "sub.d1.local", "d3.local"}

func genC04(seed uint64, tier string) *RunConfig {
	r := rand.New(rand.NewPCG(seed, 0xc04))
	rc := &RunConfig{Property: "C04", Profile: "maps", Seed: seed, World: &World{}, MapOrder: true}
	order := []string{"exact", "prefix", "begin", "regex"}
	r.Shuffle(len(order), func(i, j int) { order[i], order[j] = order[j], order[i] })
	rc.Ops = append(rc.Ops, Op{Type: "order", Note: strings.Join(order, ",")})
	nh := 1 + r.IntN(4)
	n := 2 + r.IntN(8)
	if tier == "thorough" {
		n = 2 + r.IntN(14)
	}
	seen := map[string]bool{}
	for i := 0; i < n; i++ {
		h := c04Hosts[r.IntN(nh)]
		if r.IntN(6) == 0 {
			// the same lookup hostname declared in another case (a server-alias is not validated)
			h = strings.ToUpper(h[:1]) + h[1:]
		}
		p := c04Paths[r.IntN(len(c04Paths))]
		t := []string{"exact", "prefix", "begin"}[r.IntN(3)]
		if _, avoid := avoidFlags(); avoid["no_case_variant_paths"] && p != strings.ToLower(p) {
			continue
		}
		if _, avoid := avoidFlags(); avoid["no_upper_case_prefix"] && p != strings.ToLower(p) && t == "prefix" {
			continue
		}
		k := strings.ToLower(h) + "#" + p + "#" + t
		if seen[k] {
			continue
		}
		seen[k] = true
		rc.Ops = append(rc.Ops, Op{Type: "rule", Kind: h, Key: p, Note: t})
	}
	if _, avoid := avoidFlags(); avoid["no_partial_segment_begin"] {
		rc.Ops = dropPartialSegmentBegin(rc.Ops)
	}
	return rc
}

func runC04(r *Run) error {
	var order []hatypes.MatchType
	var rules []refRule
	var rawHosts []string // as declared: hostnames are matched in lower case
	for _, op := range r.Cfg.Ops {
		switch op.Type {
		case "order":
			for _, o := range strings.Split(op.Note, ",") {
				order = append(order, hatypes.MatchType(o))
			}
		case "rule":
			rules = append(rules, refRule{host: strings.ToLower(op.Kind), path: op.Key, typ: op.Note, svc: fmt.Sprintf("b%d", len(rules)+1)})
			rawHosts = append(rawHosts, op.Kind)
		}
	}
	if len(order) != 4 || len(rules) == 0 {
		return invalidRun("C04 needs a path-type-order and at least one rule")
	}
	hosts := hatypes.CreateHosts()
	backends := hatypes.CreateBackends(0)
	be := backends.AcquireBackend("ns", "svc", "80")
	maps := hatypes.CreateMaps(order)
	hmap := maps.AddMap("/maps/_front.map")
	for i, ru := range rules {
		host := hosts.AcquireHost(ru.host)
		hp := host.AddPath(be, ru.path, hatypes.MatchType(ru.typ))
		hmap.AddHostnamePathMapping(rawHosts[i], hp, ru.svc)
	}
	files := hmap.MatchFiles()
	type mf struct {
		method  string
		lower   bool
		entries []mapEntry
		name    string
	}
	var emitted []mf
	for _, f := range files {
		m := mf{method: f.Method(), lower: f.Lower(), name: f.Filename()}
		for _, v := range f.Values() {
			m.entries = append(m.entries, mapEntry{Key: v.Key, Value: v.Value})
		}
		emitted = append(emitted, m)
	}
	r.probe("c04_rule_sets")
	if len(emitted) > 3 {
		r.probe("c04_priority_files")
	}
	r.reconciles = len(emitted)
	lookup := func(host, path string) string {
		for _, m := range emitted {
			in := host + "#" + path
			if m.lower {
				in = strings.ToLower(in)
			}
			if v, ok := lookupEntries(m.method, m.entries, in); ok {
				return v
			}
		}
		return ""
	}
	describe := func() string {
		var out []string
		for _, m := range emitted {
			var es []string
			for _, e := range m.entries {
				es = append(es, e.Key+"="+e.Value)
			}
			out = append(out, fmt.Sprintf("%s(%s)", m.method, strings.Join(es, " ")))
		}
		return strings.Join(out, " ; ")
	}
	r.sig = append(r.sig, fmt.Sprint(order), describe())
	// probes: declared paths and their neighbours, on declared hosts and a foreign one
	paths := map[string]bool{"/": true, "/zz": true}
	hs := map[string]bool{"other.local": true}
	for _, ru := range rules {
		hs[ru.host] = true
		p := ru.path
		for _, v := range []string{p, p + "/", strings.TrimSuffix(p, "/"), p + "/zz", p + "zz", p + "1", strings.ToUpper(p), strings.ToLower(p)} {
			if strings.HasPrefix(v, "/") {
				paths[v] = true
			}
		}
	}
	for _, h := range sortedKeys(hs) {
		for _, p := range sortedKeys(paths) {
			got := lookup(h, p)
			accept := bestRules(rules, h, p)
			r.probe("c04_lookups")
			if len(accept) == 0 {
				if got != "" {
					r.violate(&Violation{Property: "C04", Oracle: "precedence", Class: "captured-by-foreign-or-nonmatching-rule",
						Witness: fmt.Sprintf("%s%s matches no declared rule of that host but the maps yield %s; order %v; files: %s", h, p, got, order, describe())})
					return nil
				}
				continue
			}
			ok := false
			var want []string
			for _, a := range accept {
				want = append(want, fmt.Sprintf("%s(%s %s)", a.svc, a.typ, a.path))
				if a.svc == got {
					ok = true
				}
			}
			if !ok {
				r.violate(&Violation{Property: "C04", Oracle: "precedence", Class: "wrong-rule-selected",
					Witness: fmt.Sprintf("%s%s: the maps yield %q, expected %v (exact equal path first, else the longest declared matching path); order %v; files: %s", h, p, got, want, order, describe())})
				return nil
			}
		}
	}
	return nil
}

func init() {
	register(&Profile{Name: "maps", Prop: "C04", Custom: runC04, Oracles: OracleSet{Property: "C04"}, Build: genC04})
}

// partialSegment: short is a string prefix of long that ends inside a path
// segment of long (/ap under /app/, /app under /app1).
func partialSegment(long, short string) bool {
	l, s := strings.ToLower(long), strings.ToLower(short)
	return len(l) > len(s) && strings.HasPrefix(l, s) && !strings.HasSuffix(s, "/") && l[len(s)] != '/'
}

// dropPartialSegmentBegin removes begin rules whose path ends inside a segment
// of a longer non-exact path of the same host.
func dropPartialSegmentBegin(ops []Op) []Op {
	var out []Op
	for _, a := range ops {
		drop := false
		if a.Type == "rule" && a.Note == "begin" {
			for _, b := range ops {
				if b.Type == "rule" && b.Kind == a.Kind && b.Note != "exact" && partialSegment(b.Key, a.Key) {
					drop = true
				}
			}
		}
		if !drop {
			out = append(out, a)
		}
	}
	return out
}
