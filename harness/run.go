package hapsim

// One simulated execution: state, driver primitives, quiescence, tracing.

import (
	"fmt"
	"net"
	"os"
	"sort"
	"strings"
	"sync"
	"time"

	"github.com/go-logr/logr"
	"github.com/go-logr/logr/funcr"
	"k8s.io/apimachinery/pkg/runtime"
	"k8s.io/apimachinery/pkg/types"

	rt "github.com/jcmoraisjr/haproxy-ingress/zzsimrt"
)

func typesUID(s string) types.UID { return types.UID(s) }

// harnessError is panicked for conditions that are trouble in the harness (not
// a verdict about the code under test). The runner turns it into exit code 2.
type harnessError string

func (h harnessError) Error() string { return string(h) }

// Violation is a property violation found by an oracle.
type Violation struct {
	Property string `json:"property"`
	Oracle   string `json:"oracle"`
	// Class identifies the kind of witness (used to keep the same violation
	// while minimising and to match known findings).
	Class   string `json:"class"`
	Witness string `json:"witness"`
	Step    int    `json:"step"`
}

func (v *Violation) String() string {
	return fmt.Sprintf("%s/%s [%s] at step %d: %s", v.Property, v.Oracle, v.Class, v.Step, v.Witness)
}

// RunConfig is everything that defines a run besides the tape.
type RunConfig struct {
	Property string    `json:"property"`
	Profile  string    `json:"profile"`
	Seed     uint64    `json:"seed"`
	Ctl      CtlConfig `json:"ctl"`
	// Faults: kind -> rate in 1/1000 per fault point
	Faults map[string]int `json:"faults,omitempty"`
	// MaxFaults bounds the number of injected faults.
	MaxFaults int  `json:"max_faults,omitempty"`
	MapOrder  bool `json:"map_order"`
	Lagfree   bool `json:"lagfree"`
	MidSched  bool `json:"mid_sched"`
	Legacy24  bool `json:"legacy24,omitempty"`
	// Avoid: constraints tied to recorded known findings (see known_findings.json)
	Avoid []string `json:"avoid,omitempty"`
	// IgnoreAvoid: constraints a profile lifts on purpose (e.g. static worlds, where the recorded trigger needs a history)
	IgnoreAvoid []string `json:"ignore_avoid,omitempty"`
	// ExtraAvoid: constraints a profile adds on its own (the narrowed form of one it lifts)
	ExtraAvoid []string `json:"extra_avoid,omitempty"`
	World       *World   `json:"world"`
	Ops         []Op     `json:"ops"`
}

// Run is the live state of one execution.
type Run struct {
	Cfg    *RunConfig
	rt     *rt.Run
	tape   *rt.Tape
	kube   *Kube
	ha     *HAProxy
	ctl    *Controller
	scheme *runtime.Scheme
	logger logr.Logger
	prefix string
	hmu    sync.Mutex

	seenHosts map[string]bool // hostnames the routing probes have met so far: a removed host is probed too
	// change descriptions the watchers held when a batch was taken / that reached the services (C14, L2)
	batchTaken, batchDelivered map[string]int
	notifyPending              map[string]bool // accepted events (as change descriptions) that no batch taken so far holds
	bmu                        sync.Mutex
	freshTwice                 bool // the next fresh pipelines run two full syncs
	step                       int
	faultsLeft                 int
	faultsOff                  bool
	firedFaults                []string

	Trace        []string
	traceOn      bool
	violations   []*Violation
	probes       map[string]int
	loadProblems []string
	dns          map[string][]string
	dnsFail      map[string]bool

	oracleSeq int
	simStart  time.Time
	acme      *acmeState
	// per-reconcile observations
	reconciles          int
	or                  OracleSet
	cur                 recOutcome
	reloadPending       bool
	reloadOwed          bool // C11: a failed update/reload is being retried
	curArrival          time.Time
	lastArrival         map[bool]time.Time // by kind (partial or full): when the previous one reached the worker
	lastFailed          bool
	lastBehind          map[bool]bool
	lastFinish          time.Time
	curFullItem         bool
	thisFullItem        bool
	inReconcile         bool
	sawPartialChange    bool
	midRecSecret        bool
	startupReloads      int
	startupCmds         int
	lastFaultAt         time.Time
	nfHashes            map[string]bool
	capLoaded           *HAConfig
	startupDone         bool
	reloadPendingBefore bool
	sig                 []string
}

func (r *Run) trace(format string, a ...any) {
	if !r.traceOn {
		return
	}
	t := time.Since(r.simStart)
	r.Trace = append(r.Trace, fmt.Sprintf("[%9.3fs #%d] ", t.Seconds(), r.step)+fmt.Sprintf(format, a...))
}

func (r *Run) probe(name string) { r.probes[name]++ }

func (r *Run) violate(v *Violation) {
	v.Step = r.step
	r.violations = append(r.violations, v)
	r.trace("VIOLATION %s", v)
}

func (r *Run) noteLoadProblems(p []string) {
	r.loadProblems = append(r.loadProblems, p...)
}

// Shuffle permutes n items by tape choices (Fisher-Yates; all-zero = identity).
func (r *Run) Shuffle(site string, n int, swap func(i, j int)) {
	for i := n - 1; i > 0; i-- {
		j := i - r.tape.Choose(site, i+1)
		if j != i {
			swap(i, j)
		}
	}
}

func (r *Run) dnsLookupIP(host string) ([]net.IP, error) {
	if r.dnsFail[host] || r.rt.Fault("dns.fail", host) {
		return nil, &net.DNSError{Err: "no such host", Name: host, IsNotFound: true}
	}
	ips := r.dns[host]
	if len(ips) == 0 {
		return nil, &net.DNSError{Err: "no such host", Name: host, IsNotFound: true}
	}
	out := make([]net.IP, len(ips))
	for i, s := range ips {
		out[i] = net.ParseIP(s)
	}
	return out, nil
}

// newRun prepares the run state (inside the bubble).
func newRun(cfg *RunConfig, tape *rt.Tape, traceOn bool) *Run {
	r := &Run{Cfg: cfg, tape: tape, traceOn: traceOn, probes: map[string]int{}, prefix: "/sim/main", batchTaken: map[string]int{}, batchDelivered: map[string]int{}, notifyPending: map[string]bool{},
		dns: map[string][]string{}, dnsFail: map[string]bool{}, nfHashes: map[string]bool{}}
	r.simStart = time.Now()
	r.scheme = newScheme()
	r.rt = &rt.Run{Tape: tape, Disk: rt.NewDisk(), MapOrder: cfg.MapOrder, GatesOn: true}
	r.faultsLeft = cfg.MaxFaults
	r.rt.FaultHook = r.faultHook
	if cfg.MidSched {
		r.rt.SchedHook = r.schedHook
	}
	r.kube = NewKube(r)
	r.kube.Lagfree = cfg.Lagfree
	r.kube.NoLagKinds = map[string]bool{}
	for _, a := range cfg.Avoid {
		if a == "pods_no_lag" {
			r.kube.NoLagKinds[KPod] = true
		}
	}
	r.ha = NewHAProxy(r, r.prefix)
	r.ha.Legacy24 = cfg.Legacy24
	r.rt.Net = r.ha
	r.logger = funcr.New(r.logSink, funcr.Options{Verbosity: 2})
	return r
}

func (r *Run) faultHook(kind, detail string) bool {
	if r.faultsOff || r.faultsLeft <= 0 {
		return false
	}
	rate := r.Cfg.Faults[kind]
	if rate <= 0 {
		return false
	}
	if r.tape.Choose("fault:"+kind, 1000) < rate {
		r.faultsLeft--
		r.firedFaults = append(r.firedFaults, kind)
		r.trace("FAULT %s %s", kind, detail)
		return true
	}
	return false
}

// schedHook: a scheduling point reached from inside controller code. Pending
// informer steps of any kind may happen here (the informer goroutines run
// concurrently with a reconciliation in production).
func (r *Run) schedHook(site string) {
	if r.kube.delivering || r.kube.Lagfree {
		return
	}
	for i := 0; i < 3; i++ {
		acts := r.kube.PendingActions()
		if len(acts) == 0 {
			return
		}
		// mostly do nothing
		c := r.tape.Choose("midsched", 8+len(acts))
		if c < 8 {
			return
		}
		r.probe("mid_reconcile_informer_step")
		r.trace("mid-reconcile informer step %s at %s", acts[c-8], site)
		r.kube.Step(acts[c-8])
	}
}

// ---------------------------------------------------------------------------
// driver primitives (called from the bubble's root goroutine only)

// settle waits until every controller goroutine is durably blocked.
func (r *Run) settle() { synctestWait() }

// runGate releases one parked task and waits until it has finished; the fake
// clock advances as far as the task needs (socket timeouts, back-off sleeps).
func (r *Run) runGate(g *rt.ParkedGate) {
	r.trace("release %s", g.Name)
	r.probe("gate_" + g.Name)
	if r.acme != nil {
		r.acme.curGate = g.Name
	}
	done := r.rt.Release(g)
	<-done
	r.settle()
	if r.acme != nil {
		r.acme.curGate = ""
	}
}

// advance moves the fake clock.
func (r *Run) advance(d time.Duration) {
	time.Sleep(d)
	r.settle()
}

// drain runs everything that is ready until nothing is: informer queues,
// parked tasks; then lets time pass until the controller stays idle.
// Returns false when the budget is exhausted (harness trouble).
func (r *Run) quiesce() bool {
	cfg := r.Cfg.Ctl
	idleWait := time.Duration(max(cfg.ReloadRetryMs, cfg.ReloadIntervalMs, cfg.WaitBeforeUpdateMs))*time.Millisecond + time.Second
	if cfg.RateLimitUpdate > 0 {
		if d := time.Duration(float64(time.Second)/cfg.RateLimitUpdate) + time.Second; d > idleWait {
			idleWait = d
		}
	}
	idle := 0
	for i := 0; i < 400; i++ {
		r.settle()
		before := r.rt.Activity.Load()
		r.kube.Flush()
		r.settle()
		for _, g := range r.rt.Parked() {
			r.runTask(g)
			break
		}
		if len(r.violations) > 0 {
			return true
		}
		if len(r.rt.Parked()) > 0 || r.kube.Pending() {
			idle = 0
			continue
		}
		// small steps first so that rate-limited work starts close to its due time
		stepped := false
		for _, d := range []time.Duration{10 * time.Millisecond, 200 * time.Millisecond, time.Second} {
			if d >= idleWait {
				break
			}
			r.advance(d)
			if len(r.rt.Parked()) > 0 || r.rt.Activity.Load() != before {
				stepped = true
				break
			}
		}
		if stepped {
			idle = 0
			continue
		}
		r.advance(idleWait)
		if r.rt.Activity.Load() == before && len(r.rt.Parked()) == 0 && !r.kube.Pending() {
			idle++
			if idle >= 2 {
				return true
			}
		} else {
			idle = 0
		}
	}
	return false
}

// ---------------------------------------------------------------------------

// FileSet returns path -> content under a prefix with the prefix stripped.
func (r *Run) FileSet(prefix string) map[string][]byte {
	out := map[string][]byte{}
	for _, p := range r.rt.Disk.List(prefix + "/") {
		data, _ := r.rt.Disk.Get(p)
		out[strings.TrimPrefix(p, prefix)] = data
	}
	return out
}

func sortedKeys[V any](m map[string]V) []string {
	keys := make([]string, 0, len(m))
	for k := range m {
		keys = append(keys, k)
	}
	sort.Strings(keys)
	return keys
}

func dumpFiles(files map[string][]byte, w *os.File) {
	for _, p := range sortedKeys(files) {
		if strings.HasSuffix(p, ".pem") {
			fmt.Fprintf(w, "==== %s (%d bytes)\n", p, len(files[p]))
			continue
		}
		fmt.Fprintf(w, "==== %s\n%s\n", p, files[p])
	}
}
