package hapsim

// The executor: drives one run (world, operations, scheduling choices) and
// evaluates the oracles selected by the profile.

import (
	"fmt"
	"os"
	"path/filepath"
	"regexp"
	"strings"
	"time"

	rt "github.com/jcmoraisjr/haproxy-ingress/zzsimrt"
)

// Outcome of the last reconcile as observed from the controller's log lines
// (the metrics object that counts the same thing is unexported).
type recOutcome struct {
	id           int
	reloadEnq    bool // "haproxy reload enqueued"
	reloadedSync bool // master `reload` seen inside the reconcile task
	dynamic      bool // "haproxy updated without needing to reload"
	noop         bool // "old and new configurations match"
	failed       bool // "error trying to update haproxy"
	fullSync     bool
	partial      bool
	adminCmds    int
	faults       int
	wroteCfg     bool
}

var notifyRe = regexp.MustCompile(`"msg"="notify" "event"="(\w+)" "kind"="\*\w+\.(\w+)" "namespace"="([^"]*)" "name"="([^"]*)"`)

func (r *Run) logSink(prefix, args string) {
	if r.or.Handoff && prefix == "watchers" {
		// an event the watchers accepted: it has to be in the batch some reconciliation takes (C14, L2)
		if m := notifyRe.FindStringSubmatch(args); m != nil {
			ev := map[string]string{"create": "add", "update": "update", "delete": "del"}[m[1]]
			name := m[4]
			if m[3] != "" {
				name = m[3] + "/" + m[4]
			}
			if ev != "" {
				r.probe("c14_l2_accepted_events")
				r.bmu.Lock()
				r.notifyPending[ev+"/"+m[2]+":"+name] = true
				r.bmu.Unlock()
			}
		}
	}
	switch {
	case strings.Contains(args, "syncing ") && strings.Contains(args, " host(s) and "):
		r.cur.partial = true // only syncPartial logs this
	case strings.Contains(args, "haproxy reload enqueued"):
		r.cur.reloadEnq = true
		r.reloadPending = true
	case strings.Contains(args, "haproxy updated without needing to reload"):
		r.cur.dynamic = true
	case strings.Contains(args, "old and new configurations match"):
		r.cur.noop = true
	case strings.Contains(args, "error trying to update haproxy"):
		r.cur.failed = true
	case strings.Contains(args, "error reconciling ingress"):
		r.cur.failed = true
	}
	if r.traceOn {
		r.trace("log %s %s", prefix, args)
	}
}

// Oracles enabled for a run.
type OracleSet struct {
	FreshAtSync     bool // C01: NF(disk) == NF(fresh) at sync points
	FreshEveryRec   bool // C05: same after every successful reconcile (lag-free profiles)
	EffectiveAtSync bool // C01/C12: Effective(HAProxy) == NF(disk) at sync points
	EffectiveStep   bool // C02: Effective == NF(disk) after every reconcile that did not reload
	Loadable        bool // C07: every written configuration is loadable
	NoReload        bool // C11a: no reload / command after start-up
	Capacity        bool // C11b: in-capacity endpoint changes do not reload; slot invariants at load
	Converge        bool // C12: after faults stop, bounded-time convergence
	Routing         bool // C03: evaluator vs reference router at sync points
	TLSCerts        bool // C15: SNI evaluator vs TLS reference at sync points
	ClassSelect     bool // C08: contributing ingresses == documented selection
	ExtAuth         bool // C18: protected paths are intercepted or denied
	OrderIndep      bool // C06: permuted fresh pipelines == canonical fresh pipeline
	CrossNS         bool // C09: denied cross-namespace references have no influence
	NSProjection    bool // C09: the configuration of one namespace does not depend on the objects of the others
	Gateway         bool // C10: Gateway API admission reference vs configuration
	Acme            bool // C17: acme signing decisions and queue tracking
	Handoff         bool // C14 (L2): what the watchers held when a batch was taken reaches the services
	Spacing         bool // C13 (L2): reconciliations of one kind keep the configured distance, whoever asked for them
	Property        string
}

// Execute runs the whole history. It returns harness trouble as error; property
// violations are accumulated in r.violations.
func (r *Run) Execute(or OracleSet) (err error) {
	r.or = or
	cfg := r.Cfg
	for _, wo := range cfg.World.Objects {
		r.kube.Seed(wo.Kind, decodeObj(wo.Kind, wo.Obj))
	}
	if os.Getenv("HAPSIM_REPLAY") == "" || os.Getenv("HAPSIM_VALIDATE_AVOID") != "" {
		// (replays of recorded findings are outside the constrained space by definition)
		if why := historyViolatesAvoid(cfg); why != "" {
			return invalidRun(why)
		}
	}
	if why := r.kube.invalidWorld(); why != "" {
		// a minimisation candidate that dropped an object the rest depends on
		return invalidRun(why)
	}
	for h, ips := range cfg.World.DNS {
		r.dns[h] = ips
	}
	r.ha.RefuseBadConfig = or.Converge
	// faults start after the start-up sync point: the properties speak about updates of a
	// running controller, and a clean baseline keeps a relaxed oracle from hiding anything
	startFaultsOff := r.faultsOff
	r.faultsOff = true
	c, err := r.StartController()
	if err != nil {
		return fmt.Errorf("start controller: %w", err)
	}
	r.ctl = c
	r.settle()
	r.kube.InitialList()
	r.schedSteps(6 + r.tape.Choose("sched.startup", 20))
	if !r.quiesce() {
		return harnessError("start-up did not quiesce")
	}
	r.startupReloads = r.ha.Reloads
	r.startupCmds = len(r.ha.AdminCmds)
	r.startupDone = true
	r.afterLoad()
	r.faultsOff = startFaultsOff
	r.syncPoint("startup")
	for i, op := range cfg.Ops {
		r.step = i + 1
		if len(r.violations) > 0 {
			break
		}
		if err := r.applyOp(op); err != nil {
			return err
		}
	}
	return nil
}

func (r *Run) applyOp(op Op) error {
	r.trace("OP %s", op)
	if r.acme != nil && op.Type != "advance" && op.Type != "quiesce" {
		r.acme.lastChange = time.Now()
		r.acme.lastOp = time.Now()
	}
	switch op.Type {
	case "apply":
		if r.or.NoReload && r.kube.Truth(op.Kind, op.Key) == nil {
			// content-neutral histories only re-apply existing objects (a minimisation
			// candidate that dropped the object from the world is not such a history)
			return invalidRun("neutral update of an object that does not exist: " + op.Kind + " " + op.Key)
		}
		obj := decodeObj(op.Kind, op.Obj)
		r.kube.Apply(op.Kind, op.Key, obj)
	case "delete":
		r.kube.Apply(op.Kind, op.Key, nil)
	case "renotify":
		if r.kube.Renotify(op.Kind, op.Key) {
			r.probe("renotify")
		}
		if r.kube.Lagfree {
			r.kube.Flush()
		}
	case "advance":
		r.advance(time.Duration(op.Ms) * time.Millisecond)
	case "leader":
		r.acmeSetLeader(op.Note == "true", op.Key == "sync")
	case "acmecheck":
		if r.ctl != nil && r.acme != nil {
			r.probe("acme_external_check")
			go func() { _, _ = r.ctl.svc.SimAcmePeriodicCheck() }()
		}
	case "faults_off":
		r.faultsOff = true
		r.lastFaultAt = time.Now()
	case "faults_on":
		r.faultsOff = false
	case "quiesce":
		if r.or.Converge && r.faultsOff {
			r.convergeCheck()
			return nil
		}
		if !r.quiesce() {
			return harnessError("no quiescence within the step budget")
		}
		if r.or.Acme && op.Note == "final" && r.acme != nil && (time.Since(r.acme.lastChange) < 8*time.Hour+30*time.Minute || r.acme.lastCheckAt.Before(r.acme.lastOp)) {
			// (a minimisation candidate that dropped the settling time)
			return invalidRun("C17: the final check needs a check period plus the longest back-off of settling time")
		}
		r.syncPoint(op.Note)
		return nil
	case "crash":
		return r.crashRestart()
	default:
		return harnessError("unknown op " + op.Type)
	}
	r.settle()
	n := r.tape.Choose("sched.after_op", 6)
	if r.kube.Lagfree {
		n = r.tape.Choose("sched.after_op", 3) * 3
	}
	r.schedSteps(n)
	return nil
}

// schedSteps performs up to n scheduler steps chosen by the tape among: one
// informer step, one parked task, a small advance of the clock.
func (r *Run) schedSteps(n int) {
	for i := 0; i < n; i++ {
		r.settle()
		acts := r.kube.PendingActions()
		gates := r.rt.Parked()
		total := len(acts) + len(gates) + 1
		c := r.tape.Choose("sched.pick", total)
		switch {
		case c < len(acts):
			r.kube.Step(acts[c])
			r.settle()
		case c < len(acts)+len(gates):
			r.runTask(gates[c-len(acts)])
		default:
			ms := []int{1, 20, 200, 600, 2100, 5100}[r.tape.Choose("sched.dt", 6)]
			r.advance(time.Duration(ms) * time.Millisecond)
		}
		if len(r.violations) > 0 {
			return
		}
	}
}

// runTask releases a parked controller task and evaluates the step oracles.
func (r *Run) runTask(g *rt.ParkedGate) {
	if g.Name != "reconcile" {
		before := r.ha.Reloads
		r.runGate(g)
		if g.Name == "reload" {
			if r.ha.Reloads > before {
				r.reloadPending = false
				r.probe("reload_via_queue")
			}
			r.afterLoad()
		}
		return
	}
	r.reconciles++
	r.cur = recOutcome{id: r.reconciles}
	r.capLoaded = r.ha.Loaded
	r.reloadPendingBefore = r.reloadPending
	cmds0, reloads0, faults0 := len(r.ha.AdminCmds), r.ha.Reloads, len(r.firedFaults)
	pendingBefore := r.kube.Pending()
	r.rt.Disk.TakeLog()
	r.acmeBeforeReconcile()
	r.curArrival = g.At
	r.thisFullItem = r.curFullItem // (set by the prologue of the task that is parked at this gate)
	r.inReconcile, r.midRecSecret = true, false
	r.runGate(g)
	r.inReconcile = false
	wrote := r.rt.Disk.TakeLog()
	r.cur.adminCmds = len(r.ha.AdminCmds) - cmds0
	r.cur.reloadedSync = r.ha.Reloads > reloads0
	r.cur.faults = len(r.firedFaults) - faults0
	for _, p := range wrote {
		if strings.HasSuffix(p, ".cfg") {
			r.cur.wroteCfg = true
		}
	}
	if r.cur.reloadedSync {
		r.reloadPending = false
		r.afterLoad()
	}
	switch {
	case r.cur.failed:
		r.probe("reconcile_failed")
	case r.cur.reloadedSync || r.cur.reloadEnq:
		r.probe("reconcile_reload")
	case r.cur.dynamic:
		r.probe("reconcile_dynamic")
	case r.cur.noop:
		r.probe("reconcile_noop")
	}
	if r.cur.adminCmds > 0 {
		r.probe("dyn_update_cmds")
	}
	r.trace("reconcile #%d: %+v", r.reconciles, r.cur)
	{
		c := r.cur
		c.id = 0
		r.sig = append(r.sig, fmt.Sprintf("%+v", c))
	}
	r.afterReconcile(pendingBefore)
}

func (r *Run) afterReconcile(informersLagging bool) {
	or := r.or
	if r.cur.partial && !r.cur.noop {
		r.sawPartialChange = true
	}
	r.acmeAfterReconcile()
	if or.Spacing {
		r.checkReconcileSpacing()
	}
	if or.Loadable && r.cur.wroteCfg && r.cur.faults == 0 && !r.cur.failed {
		r.checkLoadable()
	}
	if !r.cur.partial {
		r.kube.fullEventPending = false // this one was a full sync
	}
	// a partial sync that took a batch holding IngressClass/Gateway events is followed by the
	// full sync those events enqueued (rparam{fullsync:true}); the files are compared after it
	if or.FreshEveryRec && !r.cur.failed && !informersLagging && !r.kube.Pending() && !r.kube.fullEventPending {
		r.checkFresh("C05", "every-update")
	}
	secretAhead := false
	for _, a := range r.kube.PendingActions() {
		if strings.HasSuffix(a, ":Secret") {
			secretAhead = true // a Secret informer store is ahead of its notification
		}
	}
	if r.midRecSecret {
		secretAhead = true // ... or its notification arrived while this update was running: the next update owns it
	}
	if or.EffectiveStep && !r.cur.failed && !r.reloadPending && r.ha.Loaded != nil && !r.cur.reloadedSync &&
		!(r.cur.noop && (informersLagging || r.kube.Pending())) && !secretAhead {
		// applied (or judged a no-op) without a reload: running state must equal the files.
		// Not judged: a no-op that ran while an informer store was ahead of its notifications;
		// a secret read for a declaration that is then discarded rewrites the certificate file
		// early, and the update that notification brings is the one that applies it. For the same
		// reason no update is judged while a Secret store is ahead of its notification: a certificate
		// file may already hold what the next update will apply (the sync-point oracle sees the end).
		r.checkEffective(or.Property, "after-dynamic-update")
	}
	if or.Capacity && (r.cur.failed || r.cur.faults > 0) {
		r.reloadOwed = true // a failed update or reload is retried: the next reload pays that debt
	}
	if or.Capacity && !r.cur.failed && r.capLoaded != nil {
		r.checkCapacity()
	}
	if or.NoReload && r.startupReloads > 0 {
		if r.ha.Reloads > r.startupReloads || r.reloadPending {
			r.violate(&Violation{Property: "C11", Oracle: "no-reload", Class: "reload-on-renotify",
				Witness: fmt.Sprintf("a reload was requested by reconcile #%d although no resource content changed", r.reconciles)})
		} else if len(r.ha.AdminCmds) > r.startupCmds {
			r.violate(&Violation{Property: "C11", Oracle: "no-reload", Class: "commands-on-renotify",
				Witness: fmt.Sprintf("runtime commands were sent by reconcile #%d although no resource content changed: %v", r.reconciles, r.ha.AdminCmds[r.startupCmds:])})
		}
	}
}

// afterLoad runs after HAProxy (re)loaded a configuration.
func (r *Run) afterLoad() {
	// loads during start-up may render a configuration computed before the global ConfigMap
	// was delivered; the slot invariants are checked from the start-up sync point on
	if r.or.Capacity && r.ha.Loaded != nil && r.startupDone {
		r.checkSlots()
	}
}

func (r *Run) diskConfig() *HAConfig {
	return parseConfigDir(r.rt.Disk, r.prefix+"/etc/haproxy")
}

func (r *Run) checkLoadable() {
	c := r.diskConfig()
	if c == nil {
		return
	}
	r.probe("loadable_checked")
	nAuth := 0
	for _, sec := range c.Sections {
		if sec.Kind == "backend" && strings.HasPrefix(sec.Name, "_auth_1") {
			nAuth++
		}
		if sec.Kind == "userlist" {
			r.probe("cfg_with_userlist")
		}
		if sec.Kind == "frontend" && strings.HasPrefix(sec.Name, "_front_tcp_") {
			r.probe("cfg_with_tcp_frontend")
		}
	}
	if nAuth >= 2 {
		r.probe("cfg_with_2_auth_proxy_binds")
	} else if nAuth == 1 {
		r.probe("cfg_with_1_auth_proxy_bind")
	}
	for _, f := range c.Fatal {
		r.violate(&Violation{Property: "C07", Oracle: "loadable", Class: "fatal:" + problemClass(f), Witness: f})
		return
	}
	for _, f := range c.Dangling {
		r.violate(&Violation{Property: "C07", Oracle: "loadable", Class: "dangling:" + problemClass(f), Witness: f})
		return
	}
}

// problemClass reduces a loader message to its kind (names removed).
func problemClass(msg string) string {
	for _, k := range []string{"duplicated section", "duplicated server name", "duplicated server id", "use_backend", "default_backend",
		"use-server", "bind address", "file not found", "certificate file not found", "unable to load certificate", "userlist",
		"names no backend", "path id", "missing LF", "directive outside"} {
		if strings.Contains(msg, k) {
			return strings.ReplaceAll(k, " ", "-")
		}
	}
	return "other"
}

// checkFresh compares the long-running controller's files with a fresh one.
func (r *Run) checkFresh(prop, oracle string) bool {
	disk := r.diskConfig()
	if disk == nil {
		return true
	}
	r.oracleSeq++
	prefix := fmt.Sprintf("/sim/oracle%d", r.oracleSeq)
	if _, err := r.FreshSync(prefix); err != nil {
		panic(harnessError("fresh oracle failed: " + err.Error()))
	}
	fresh := parseConfigDir(r.rt.Disk, prefix+"/etc/haproxy")
	if fresh == nil {
		panic(harnessError("fresh oracle wrote no configuration"))
	}
	if len(fresh.Fatal) > 0 && r.or.Loadable {
		r.violate(&Violation{Property: "C07", Oracle: "loadable-fresh", Class: "fatal:" + problemClass(fresh.Fatal[0]), Witness: fresh.Fatal[0]})
	}
	nfd, nff := disk.NormalForm(nil), fresh.NormalForm(nil)
	r.nfHashes[nff.Hash()] = true
	r.probe("fresh_compared")
	ok := true
	if dir := os.Getenv("HAPSIM_DUMP"); dir != "" {
		dumpTo(filepath.Join(dir, fmt.Sprintf("%02d-long", r.oracleSeq)), r.FileSet(r.prefix))
		dumpTo(filepath.Join(dir, fmt.Sprintf("%02d-fresh", r.oracleSeq)), r.FileSet(prefix))
	}
	if d := DiffNF(nfd, nff, "long-running", "fresh"); d != "" {
		r.violate(&Violation{Property: prop, Oracle: oracle, Class: "nf-mismatch:" + diffClass(d), Witness: d})
		ok = false
	}
	for _, p := range r.rt.Disk.List(prefix + "/") {
		r.rt.Disk.Delete(p)
	}
	return ok
}

func diffClass(d string) string {
	switch {
	case strings.Contains(d, "only in long-running"):
		if strings.Contains(d, "(duplicate)") {
			return "duplicate-section"
		}
		return "stale-section"
	case strings.Contains(d, "only in fresh"):
		return "missing-section"
	case strings.HasPrefix(d, "section 'backend"):
		return "backend-content"
	case strings.HasPrefix(d, "section 'frontend"), strings.HasPrefix(d, "section 'listen"):
		return "frontend-content"
	case strings.HasPrefix(d, "section 'userlist"):
		return "userlist-content"
	}
	return "other-content"
}

// checkEffective compares the running HAProxy (loaded configuration + runtime
// edits) with what it would be after loading the files on disk now.
func (r *Run) checkEffective(prop, oracle string) bool {
	disk := r.diskConfig()
	if disk == nil || r.ha.Loaded == nil {
		return true
	}
	r.probe("effective_compared")
	if dir := os.Getenv("HAPSIM_DUMP"); dir != "" {
		dumpTo(filepath.Join(dir, fmt.Sprintf("eff-%03d", r.probes["effective_compared"])), r.FileSet(r.prefix))
	}
	nfd := disk.NormalForm(&NFOptions{RuntimeView: true})
	nfe := r.ha.Loaded.NormalForm(&NFOptions{RuntimeView: true, Servers: r.ha.Servers, Certs: r.ha.Certs})
	if d := DiffNF(nfe, nfd, "running", "disk"); d != "" {
		r.violate(&Violation{Property: prop, Oracle: oracle, Class: "running-vs-disk:" + diffClass(d), Witness: d})
		return false
	}
	return true
}

func (r *Run) syncPoint(note string) {
	r.probe("sync_point")
	if dir := os.Getenv("HAPSIM_DUMP"); dir != "" {
		dumpTo(filepath.Join(dir, fmt.Sprintf("sync-%03d", r.probes["sync_point"])), r.FileSet(r.prefix))
	}
	r.trace("SYNC POINT %s", note)
	if len(r.loadProblems) > 0 && r.or.Loadable {
		p := r.loadProblems[0]
		r.violate(&Violation{Property: "C07", Oracle: "haproxy-load", Class: "fatal:" + problemClass(p), Witness: p})
		r.loadProblems = nil
	}
	if r.or.Loadable {
		r.checkLoadable()
	}
	if r.or.FreshAtSync || r.or.FreshEveryRec {
		prop := r.or.Property
		r.checkFresh(prop, "sync-point")
	}
	if r.or.EffectiveAtSync || r.or.EffectiveStep {
		r.checkEffective(r.or.Property, "sync-point")
	}
	if r.or.OrderIndep {
		r.checkOrderIndependence()
	}
	if r.or.CrossNS {
		r.checkCrossNamespace()
	}
	if r.or.NSProjection {
		r.checkNamespaceProjection()
	}
	if r.or.Gateway {
		r.checkGateway()
	}
	if r.or.Acme {
		r.checkAcme(note == "final")
	}
	if r.or.Handoff && note == "final" {
		r.checkHandoff()
	}
	if r.or.Routing {
		r.checkRouting()
	}
	if r.or.TLSCerts {
		r.checkTLSCerts()
	}
	if r.or.ClassSelect {
		r.checkClassSelection()
	}
	if r.or.ExtAuth {
		r.checkExtAuth()
	}
}

// convergeCheck (C12): faults have stopped and no further cluster change
// happens; within the bound the files and the running HAProxy must reach the
// state of the cluster.
func (r *Run) convergeCheck() {
	cfg := r.Cfg.Ctl
	bound := time.Duration(cfg.ReloadRetryMs+cfg.ReloadIntervalMs+cfg.WaitBeforeUpdateMs)*time.Millisecond + 5*time.Second
	if cfg.RateLimitUpdate > 0 {
		bound += time.Duration(float64(time.Second) / cfg.RateLimitUpdate)
	}
	// informer queues drain first: they are part of "the state of the cluster reached the controller"
	r.kube.Flush()
	r.settle()
	deadline := time.Now().Add(2 * bound)
	for time.Now().Before(deadline) {
		r.settle()
		r.kube.Flush()
		if gs := r.rt.Parked(); len(gs) > 0 {
			r.runTask(gs[0])
			continue
		}
		r.advance(250 * time.Millisecond)
	}
	r.probe("converge_checked")
	prop := "C12"
	if !r.checkFresh(prop, "converge-files") {
		return
	}
	if r.ha.Loaded == nil {
		r.violate(&Violation{Property: prop, Oracle: "converge-running", Class: "never-loaded", Witness: "HAProxy never loaded a configuration"})
		return
	}
	r.checkEffective(prop, "converge-running")
}

// checkSlots (C11): every loaded configuration gives each dynamic backend at
// least slots-min-free empty slots and a slot count that is a multiple of the
// increment. The expected values come from the generated configuration.
func (r *Run) checkSlots() {
	// implemented in oracle_c11.go
	r.checkSlotsImpl()
}

func (r *Run) crashRestart() error {
	r.probe("crash_restart")
	r.trace("CRASH controller")
	r.rt.Crashed = true
	r.settle()
	// let whatever is running fail its way back to a gate or a queue
	for i := 0; i < 20; i++ {
		gs := r.rt.Parked()
		if len(gs) == 0 {
			break
		}
		r.rt.ZombifyParked()
	}
	r.ctl.Stop()
	r.settle()
	r.rt.ZombifyParked()
	r.kube.ResetHandlers()
	r.rt.Crashed = false
	r.reloadPending = false
	c, err := r.StartController()
	if err != nil {
		return fmt.Errorf("restart controller: %w", err)
	}
	r.ctl = c
	r.settle()
	r.kube.InitialList()
	return nil
}

func dumpTo(dir string, files map[string][]byte) {
	for p, data := range files {
		if strings.HasSuffix(p, ".lua") || strings.HasSuffix(p, ".conf") {
			continue
		}
		dst := filepath.Join(dir, p)
		os.MkdirAll(filepath.Dir(dst), 0755)
		os.WriteFile(dst, data, 0644)
	}
}

// invalidRun marks a run whose world is not a possible cluster state.
type invalidRun string

func (i invalidRun) Error() string { return "invalid world: " + string(i) }

// checkHandoff (C14 at L2): every change description the watchers held at the instant a reconciliation took
// its batch was handed to the services by some reconciliation, as often as it was taken. Judged at the final
// sync point, when no reconciliation is pending.
func (r *Run) checkHandoff() {
	r.bmu.Lock()
	defer r.bmu.Unlock()
	r.probe("model_compared")
	for _, d := range sortedKeys(r.notifyPending) {
		r.violate(&Violation{Property: "C14", Oracle: "hand-off", Class: "accepted-event-in-no-batch",
			Witness: fmt.Sprintf("the watchers accepted an event (%s) and no reconciliation took a batch that holds it", d)})
		return
	}
	for _, d := range sortedKeys(r.batchTaken) {
		r.probe("c14_descriptions_taken")
		if r.batchDelivered[d] < r.batchTaken[d] {
			r.violate(&Violation{Property: "C14", Oracle: "hand-off", Class: "batch-taken-not-delivered",
				Witness: fmt.Sprintf("the change description %q was in the batch a reconciliation took %d time(s) but reached ReconcileIngress %d time(s)", d, r.batchTaken[d], r.batchDelivered[d])})
			return
		}
	}
}
