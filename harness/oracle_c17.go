package hapsim

// C17 — ACME: certificates requested exactly when needed, the queue tracks the
// Ingress changes. L2 with the acme client service on: the real signer, its
// real work queue (exponential failure back-off on the fake clock), the real
// AcmeUpdate/AcmeCheck of the haproxy instance and the real cache facade that
// reads and writes the Secrets; the ACME protocol client (network) is a stub
// that issues a certificate for the requested names, and leadership is decided
// by the harness. Oracles:
//   sign-justified   every Client.Sign is for a (secret, names) item whose
//                    secret, as the signer reads it at that instant, is
//                    missing/unreadable, expires inside the window or misses a name;
//   write-justified  a Secret is written only with a certificate AND key the
//                    client returned;
//   queue-tracks     at quiescent points on the leader the items added and not
//                    removed are exactly the wanted (secret -> names) set;
//   no-requeue       a partial sync does not add an item that is already live;
//   non-leader       nothing is signed or written from what a non-leader saw;
//   issued           bounded liveness: once faults stop and one check period (24h)
//                    plus the longest back-off (8h) have passed, every wanted
//                    secret holds a valid certificate covering its names.

import (
	"crypto/sha1"
	"crypto/x509"
	"encoding/hex"
	"encoding/pem"
	"fmt"
	"math/rand/v2"
	"sort"
	"strconv"
	"strings"
	"time"

	api "k8s.io/api/core/v1"
	networking "k8s.io/api/networking/v1"

	"sigs.k8s.io/controller-runtime/pkg/client"

	"github.com/jcmoraisjr/haproxy-ingress/pkg/acme"
	"github.com/jcmoraisjr/haproxy-ingress/pkg/controller/services"
)

type acmeState struct {
	leader       bool
	live         map[string]bool   // items added and not removed (as the instance asked)
	liveLeader   map[string]bool   // ... of which were added while leading (really enqueued)
	everAdded    map[string]bool   // every item ever added while leading
	issued       map[string]string // sha1(crt) -> names, of certificates the stub returned with a key
	signs        int
	lastChange   time.Time
	lastCheckAt  time.Time       // last periodic or external check that ran while leading
	lastOp       time.Time       // last operation of the history (cluster change, lease change)
	grace        map[string]bool // items queued when the lease was lost: the single worker may have one of them in flight
	graceLeft    int
	curGate      string
	addsThisRec  []string
	liveAtRecBeg map[string]bool
}

type simAcmeClient struct{ r *Run }

func pemHash(b []byte) string {
	h := sha1.Sum(b)
	return hex.EncodeToString(h[:8])
}

func (c *simAcmeClient) Sign(dnsnames []string, preferredChain string) (crt, key []byte, err error) {
	r := c.r
	st := r.acme
	st.signs++
	r.probe("acme_sign_calls")
	r.trace("acme Sign %v", dnsnames)
	names := strings.Join(dnsnames, ",")
	// sign-justified
	justified, candidates, removed := false, 0, 0
	for item := range st.everAdded {
		f := strings.Split(item, ",")
		if len(f) < 3 || strings.Join(f[2:], ",") != names {
			continue
		}
		if !st.liveLeader[item] {
			removed++
			continue
		}
		candidates++
		if why := r.acmeNeedsCert(f[0], f[2:], true); why != "" {
			justified = true
		}
	}
	if candidates == 0 && removed > 0 && st.graceLeft > 0 {
		for item := range st.grace {
			f := strings.Split(item, ",")
			if strings.Join(f[2:], ",") == names {
				// in flight or ready when the lease was lost: the worker drains them
				st.graceLeft--
				delete(st.grace, item)
				removed = 0
				candidates, justified = 1, true
				r.probe("acme_sign_in_flight_at_lease_loss")
				break
			}
		}
	}
	if candidates == 0 && removed > 0 {
		r.violate(&Violation{Property: "C17", Oracle: "queue-tracks", Class: "removed-item-still-signed",
			Witness: fmt.Sprintf("Client.Sign(%s): the only queue items with these names were removed from the queue (no ingress declares them any more); queued now: %v", names, sortedKeys(st.liveLeader))})
	} else if candidates == 0 {
		r.violate(&Violation{Property: "C17", Oracle: "non-leader", Class: "signed-without-enqueued-item",
			Witness: fmt.Sprintf("Client.Sign(%s) although no item with these names was added to the queue while leading", names)})
	} else if !justified {
		r.violate(&Violation{Property: "C17", Oracle: "sign-justified", Class: "valid-covering-certificate-re-requested",
			Witness: fmt.Sprintf("Client.Sign(%s): every secret queued for these names holds a certificate that covers them and does not expire within %v", names, r.acmeExpiring())})
	}
	if !st.leader {
		r.probe("acme_sign_while_not_leader")
	}
	nf := len(r.firedFaults)
	defer func() {
		if len(r.firedFaults) > nf {
			st.lastChange = time.Now() // the back-off of this item starts again
		}
	}()
	switch {
	case r.rt.Fault("acme.sign_error", names):
		return nil, nil, fmt.Errorf("simulated acme failure")
	case r.rt.Fault("acme.sign_crt_only", names):
		p := makeCert(dnsnames[0], dnsnames, time.Now().Add(-time.Hour), time.Now().Add(90*24*time.Hour), false)
		return p.Crt, nil, fmt.Errorf("simulated acme failure after the certificate was received")
	case r.rt.Fault("acme.sign_key_only", names):
		p := makeCert(dnsnames[0], dnsnames, time.Now().Add(-time.Hour), time.Now().Add(90*24*time.Hour), false)
		return nil, p.Key, fmt.Errorf("simulated acme failure: no certificate")
	}
	p := makeCert(dnsnames[0], dnsnames, time.Now().Add(-time.Hour), time.Now().Add(90*24*time.Hour), false)
	st.issued[pemHash(p.Crt)] = names
	r.probe("acme_issued")
	return p.Crt, p.Key, nil
}

func (r *Run) acmeExpiring() time.Duration {
	days := 30
	if v := r.globalString("acme-expiring"); v != "" {
		if n, err := strconv.Atoi(v); err == nil {
			days = n
		}
	}
	return time.Duration(days) * 24 * time.Hour
}

// acmeNeedsCert: the documented decision. "" = the secret holds a valid
// certificate that covers every name and does not expire inside the window.
func (r *Run) acmeNeedsCert(secretName string, names []string, store bool) string {
	return r.acmeNeedsCertAt(secretName, names, store, time.Now())
}

func (r *Run) acmeNeedsCertAt(secretName string, names []string, store bool, at time.Time) string {
	var o interface{}
	if store {
		o = r.kube.ks(KSecret).store[secretName]
	} else {
		o = r.kube.Truth(KSecret, secretName)
	}
	s, _ := o.(*api.Secret)
	if s == nil {
		return "missing"
	}
	blk, _ := pem.Decode(s.Data[api.TLSCertKey])
	if blk == nil {
		return "unreadable"
	}
	crt, err := x509.ParseCertificate(blk.Bytes)
	if err != nil {
		return "unreadable"
	}
	if crt.NotAfter.Before(at.Add(r.acmeExpiring())) {
		return "expiring"
	}
	for _, n := range names {
		if crt.VerifyHostname(n) != nil {
			return "does not cover " + n
		}
	}
	return ""
}

// acmeWanted: secret -> item, from the cluster state (ground truth).
func (r *Run) acmeWanted() map[string]string {
	domains := map[string]map[string]bool{}
	for _, ing := range r.selectedIngresses() {
		signer := strings.ToLower(ing.Annotations[annPrefix+"cert-signer"]) == "acme"
		if !signer && r.Cfg.Ctl.AcmeTrackTLSAnn {
			signer, _ = strconv.ParseBool(ing.Annotations["kubernetes.io/tls-acme"])
		}
		if !signer {
			continue
		}
		for _, t := range ing.Spec.TLS {
			if t.SecretName == "" {
				continue
			}
			name := ing.Namespace + "/" + t.SecretName
			if domains[name] == nil {
				domains[name] = map[string]bool{}
			}
			for _, h := range t.Hosts {
				domains[name][h] = true
			}
		}
	}
	out := map[string]string{}
	for name, ds := range domains {
		out[name] = name + ",," + strings.Join(sortedKeys(ds), ",")
	}
	return out
}

func (r *Run) acmeAccountUsable() bool {
	return r.globalString("acme-emails") != "" && r.globalString("acme-endpoint") != "" && r.globalBool("acme-terms-agreed", false)
}

// acmeHook observes the queue facade calls of the haproxy instance.
func (r *Run) acmeHook(op string, item any) {
	if r.rt.Quiet {
		return
	}
	st := r.acme
	s := fmt.Sprint(item)
	r.trace("acme queue %s %s (leader=%v gate=%s)", op, s, st.leader, st.curGate)
	r.probe("acme_queue_" + op)
	if st.curGate == "acmecheck" && st.leader {
		st.lastCheckAt = time.Now()
	}
	switch op {
	case "add", "addafter":
		if st.curGate == "reconcile" {
			st.addsThisRec = append(st.addsThisRec, s)
		}
		if !st.liveLeader[s] {
			st.lastChange = time.Now() // a new item: its signing (and back-off) starts now
		}
		st.live[s] = true
		if st.leader {
			st.liveLeader[s] = true
			st.everAdded[s] = true
		} else {
			r.probe("acme_add_while_not_leader")
		}
	case "remove":
		delete(st.live, s)
		delete(st.liveLeader, s)
	}
}

// acmeAfterReconcile: no-requeue.
func (r *Run) acmeAfterReconcile() {
	st := r.acme
	if st == nil {
		return
	}
	if r.cur.partial && !r.cur.failed {
		for _, a := range st.addsThisRec {
			if st.liveAtRecBeg[a] {
				r.violate(&Violation{Property: "C17", Oracle: "no-requeue", Class: "unchanged-item-re-enqueued",
					Witness: fmt.Sprintf("the partial sync #%d added %q again although it was already queued and did not change", r.reconciles, a)})
			}
		}
	}
	st.addsThisRec = nil
}

func (r *Run) acmeBeforeReconcile() {
	st := r.acme
	if st == nil {
		return
	}
	st.liveAtRecBeg = map[string]bool{}
	for k := range st.liveLeader {
		st.liveAtRecBeg[k] = true
	}
	st.addsThisRec = nil
}

// acmeSecretWritten: write-justified (called by the simulated API for every
// Secret the controller creates or updates).
func (r *Run) acmeSecretWritten(s *api.Secret) {
	st := r.acme
	if st == nil || r.rt.Quiet {
		return
	}
	key := s.Namespace + "/" + s.Name
	if key == podNamespace+"/acme-private-key" {
		return
	}
	r.probe("acme_secret_written")
	crt, k := s.Data[api.TLSCertKey], s.Data[api.TLSPrivateKeyKey]
	if _, ok := st.issued[pemHash(crt)]; !ok || len(k) == 0 || !validPEMPair(append(append([]byte{}, crt...), k...)) {
		r.violate(&Violation{Property: "C17", Oracle: "write-justified", Class: "secret-written-without-certificate-and-key",
			Witness: fmt.Sprintf("Secret %s was written with tls.crt (%d bytes) / tls.key (%d bytes) that are not a certificate and key returned together by the acme client", key, len(crt), len(k))})
	}
}

// checkAcme: queue-tracks at a quiescent point.
func (r *Run) checkAcme(final bool) {
	st := r.acme
	if st == nil {
		return
	}
	r.probe("model_compared")
	if !st.leader {
		// non-leader: whatever it saw, nothing was really enqueued
		return
	}
	if !r.acmeAccountUsable() {
		return
	}
	wanted := r.acmeWanted()
	want := map[string]bool{}
	for _, item := range wanted {
		want[item] = true
	}
	if len(want) > 0 {
		r.probe("acme_wanted_states")
	}
	var missing, extra []string
	for item := range want {
		if !st.liveLeader[item] {
			missing = append(missing, item)
		}
	}
	for item := range st.live {
		if !want[item] {
			extra = append(extra, item)
		}
	}
	sort.Strings(missing)
	sort.Strings(extra)
	if len(missing) > 0 {
		r.violate(&Violation{Property: "C17", Oracle: "queue-tracks", Class: "wanted-item-not-enqueued",
			Witness: fmt.Sprintf("wanted by the cluster state but never added to the queue (or removed) while leading: %v; queued: %v", missing, sortedKeys(st.liveLeader))})
		return
	}
	if len(extra) > 0 {
		r.violate(&Violation{Property: "C17", Oracle: "queue-tracks", Class: "stale-item-not-removed",
			Witness: fmt.Sprintf("still queued although no ingress wants it any more: %v; wanted: %v", extra, sortedKeys(want))})
		return
	}
	if !final {
		return
	}
	// issued: every wanted secret is valid now (faults are over, back-off elapsed)
	for name, item := range wanted {
		f := strings.Split(item, ",")
		// a certificate that entered the expiry window after the last periodic check is found by the next one
		if why := r.acmeNeedsCertAt(name, f[2:], false, st.lastCheckAt); why != "" {
			r.violate(&Violation{Property: "C17", Oracle: "issued", Class: "needed-certificate-not-issued",
				Witness: fmt.Sprintf("secret %s for %v is still %s after faults stopped and more than the check period plus the longest back-off passed (%d Sign calls)", name, f[2:], why, st.signs)})
			return
		}
	}
}

// ---------------------------------------------------------------------------
// generator

func mkCertSecret(ns, name string, dns []string, notAfter time.Time) *api.Secret {
	p := makeCert(dns[0], dns, epoch.Add(-24*time.Hour), notAfter, false)
	return mkTLSSecret(ns, name, p)
}

var acmeHosts = []string{"d1.local", "d2.local", "d3.local", "sub.d4.local", "d0.local"}

type acmeGen struct {
	r       *rand.Rand
	created int
}

func (g *acmeGen) ingress(ns, name string, trackAnn bool) *networking.Ingress {
	g.created++
	ann := map[string]string{}
	switch g.r.IntN(6) {
	case 0:
		// not an acme ingress
	case 1:
		if trackAnn {
			ann["kubernetes.io/tls-acme"] = "true"
		} else {
			ann[annPrefix+"cert-signer"] = "acme"
		}
	default:
		ann[annPrefix+"cert-signer"] = []string{"acme", "acme", "ACME"}[g.r.IntN(3)]
	}
	var rules []ruleSpec
	var tlss []tlsSpec
	nt := 1 + g.r.IntN(2)
	for i := 0; i < nt; i++ {
		t := tlsSpec{Secret: []string{"crt1", "crt2", "crt1", "crt3", ""}[g.r.IntN(5)]}
		for j, n := 0, 1+g.r.IntN(3); j < n; j++ {
			h := acmeHosts[g.r.IntN(len(acmeHosts))]
			dup := false
			for _, x := range t.Hosts {
				dup = dup || x == h
			}
			if !dup {
				t.Hosts = append(t.Hosts, h)
			}
		}
		tlss = append(tlss, t)
		rules = append(rules, ruleSpec{Host: t.Hosts[0], Paths: []pathSpec{{Path: "/", Svc: "s1", Port: "80"}}})
	}
	cls := ingressClassName
	ing := mkIngress(ns, name, g.created, ann, &cls, rules, tlss, nil)
	ing.Generation = int64(g.created) // the API server bumps it on every spec change
	return ing
}

func genAcme(seed uint64, tier string) *RunConfig {
	r := rand.New(rand.NewPCG(seed, 0xc17))
	g := &acmeGen{r: r}
	ctl := sampleCtl(r)
	ctl.Acme, ctl.DefaultService, ctl.DefaultSSLCertificate = true, "", ""
	ctl.AcmeTrackTLSAnn = r.IntN(3) == 0
	rc := &RunConfig{Property: "C17", Profile: "acme", Seed: seed, Ctl: ctl, World: &World{}, MapOrder: r.IntN(2) == 0, Lagfree: r.IntN(2) == 0, MidSched: r.IntN(3) == 0}
	if r.IntN(3) == 0 {
		rc.Faults = map[string]int{"acme.sign_error": 150, "acme.sign_crt_only": 80, "acme.sign_key_only": 50}
		rc.MaxFaults = 1 + r.IntN(6)
	}
	add := func(o client.Object) { rc.World.Objects = append(rc.World.Objects, wobj(o)) }
	expiring := []string{"30", "30", "10", "60"}[r.IntN(4)]
	add(mkConfigMap(globalConfigMapName, map[string]string{"acme-emails": "a@b.c", "acme-endpoint": "v2-staging", "acme-terms-agreed": "true", "acme-expiring": expiring}))
	add(mkIngressClass(ingressClassName, controllerName, ""))
	add(mkService("a", "s1", nil, map[string]string{"app": "s1"}, []portSpec{{"http", 80, "8080"}}))
	add(mkService("b", "s1", nil, map[string]string{"app": "s1"}, []portSpec{{"http", 80, "8080"}}))
	add(mkEndpoints("a", "s1", []epAddr{{"10.0.1.1", "", true}}, []epPort{{"http", 8080}}))
	add(mkEndpoints("b", "s1", []epAddr{{"10.0.3.1", "", true}}, []epPort{{"http", 8080}}))
	days, _ := strconv.Atoi(expiring)
	secret := func(ns, name string) client.Object {
		var dns []string
		for _, h := range acmeHosts {
			if r.IntN(2) == 0 {
				dns = append(dns, h)
			}
		}
		if r.IntN(5) == 0 {
			dns = append(dns, "*.d4.local")
		}
		if len(dns) == 0 {
			dns = []string{acmeHosts[0]}
		}
		// absent is the other case; expiry around the window boundary
		var notAfter time.Time
		switch r.IntN(5) {
		case 0:
			notAfter = epoch.Add(-time.Hour) // already expired
		case 1:
			notAfter = epoch.Add(time.Duration(days)*24*time.Hour - time.Duration(r.IntN(48))*time.Hour) // just inside
		case 2:
			notAfter = epoch.Add(time.Duration(days)*24*time.Hour + time.Duration(1+r.IntN(72))*time.Hour) // just outside
		default:
			notAfter = epoch.Add(300 * 24 * time.Hour)
		}
		return mkCertSecret(ns, name, dns, notAfter)
	}
	for _, ns := range []string{"a", "b"} {
		for _, n := range []string{"crt1", "crt2", "crt3"} {
			if r.IntN(2) == 0 {
				add(secret(ns, n))
			}
		}
	}
	names := [][2]string{{"a", "ing1"}, {"a", "ing2"}, {"b", "ing1"}, {"b", "ing2"}}
	for _, nn := range names {
		if r.IntN(2) == 0 {
			add(g.ingress(nn[0], nn[1], ctl.AcmeTrackTLSAnn))
		}
	}
	leader := r.IntN(6) != 0
	syncKey := ""
	if _, avoid := avoidFlags(); avoid["acme_quiesce_after_leader"] {
		syncKey = "sync" // KF-acme-full-sync-no-removal: a new leader finishes its full sync before anything else changes
	}
	rc.Ops = append(rc.Ops, Op{Type: "leader", Note: fmt.Sprint(leader), Key: syncKey}, Op{Type: "quiesce"})
	mn, mx := tierOps(tier, 4, 16)
	nops := mn + r.IntN(mx-mn+1)
	for i := 0; i < nops; i++ {
		nn := names[r.IntN(len(names))]
		switch r.IntN(12) {
		case 0, 1, 2, 3:
			rc.Ops = append(rc.Ops, applyOp(g.ingress(nn[0], nn[1], ctl.AcmeTrackTLSAnn), "ingress"))
		case 4:
			rc.Ops = append(rc.Ops, deleteOp(KIngress, nn[0]+"/"+nn[1], "ingress delete"))
		case 5:
			rc.Ops = append(rc.Ops, applyOp(secret(nn[0], []string{"crt1", "crt2", "crt3"}[r.IntN(3)]), "secret replaced"))
		case 6:
			rc.Ops = append(rc.Ops, deleteOp(KSecret, nn[0]+"/"+[]string{"crt1", "crt2", "crt3"}[r.IntN(3)], "secret delete"))
		case 7:
			rc.Ops = append(rc.Ops, Op{Type: "acmecheck"})
		case 8:
			// a day or more passes: periodic check, expiry boundaries move
			rc.Ops = append(rc.Ops, Op{Type: "advance", Ms: (20 + r.IntN(60)) * 3600 * 1000})
		case 9:
			leader = !leader
			rc.Ops = append(rc.Ops, Op{Type: "leader", Note: fmt.Sprint(leader), Key: syncKey})
		case 10:
			rc.Ops = append(rc.Ops, Op{Type: "renotify", Kind: KIngress, Key: nn[0] + "/" + nn[1]})
		case 11:
			rc.Ops = append(rc.Ops, Op{Type: "advance", Ms: 500 + r.IntN(600000)})
		}
		if r.IntN(3) == 0 {
			rc.Ops = append(rc.Ops, Op{Type: "quiesce"})
		}
	}
	// faults stop; the leader keeps leading for longer than the longest back-off
	rc.Ops = append(rc.Ops, Op{Type: "faults_off"}, Op{Type: "leader", Note: "true", Key: syncKey}, Op{Type: "quiesce"},
		Op{Type: "advance", Ms: 25 * 3600 * 1000}, Op{Type: "quiesce"}, Op{Type: "advance", Ms: 9 * 3600 * 1000}, Op{Type: "quiesce", Note: "final"})
	return rc
}

func init() {
	register(&Profile{Name: "acme", Prop: "C17", Weight: 1,
		Oracles: OracleSet{Property: "C17", Acme: true},
		Build:   genAcme})
}

var _ acme.Client = (*simAcmeClient)(nil)

// acmeInstall wires the simulation seams of a controller generation.
func (r *Run) acmeInstall(c *Controller) {
	if r.acme == nil {
		r.acme = &acmeState{live: map[string]bool{}, liveLeader: map[string]bool{}, everAdded: map[string]bool{}, issued: map[string]string{}}
	}
	stub := &simAcmeClient{r: r}
	acme.SimClientFactory = func(endpoint, emails string, termsAgreed bool) acme.Client {
		if endpoint == "" || emails == "" || !termsAgreed {
			return nil
		}
		return stub
	}
	services.SimReset()
	services.SimAcmeHook = r.acmeHook
}

// acmeSetLeader is the `leader` operation.
func (r *Run) acmeSetLeader(leader, sync bool) {
	if r.acme == nil || r.ctl == nil {
		return
	}
	if sync && leader {
		// KF-acme-full-sync-no-removal: nothing is pending when the lease is acquired
		r.quiesce()
	}
	r.acme.leader = leader
	if !leader {
		// losing the lease stops the leader-only services: the queue is shut down with what it
		// held; what a non-leader is asked to queue is dropped; a new leader starts from a full sync
		// (a queue that is shut down still hands out the items that were ready: each may be signed once)
		r.acme.grace, r.acme.graceLeft = r.acme.liveLeader, len(r.acme.liveLeader)
		r.acme.liveLeader = map[string]bool{}
		r.acme.live = map[string]bool{}
	}
	r.probe("acme_leader_" + fmt.Sprint(leader))
	r.ctl.svc.SimSetLeader(r.ctl.ctx, leader)
	r.settle()
	if sync && leader {
		// KF-acme-full-sync-no-removal: the full sync a new leader runs completes before anything else changes
		r.quiesce()
	}
}
