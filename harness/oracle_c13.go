package hapsim

// C13 — rate limits hold and nothing is dropped (L0: the real limiters and the
// real queues on the fake clock).
//
// (a) reload: workqueue.New(fn, ReloadHAProxyRateLimiter(I)) started for real.
// (b) reconcile: a controller-runtime controller built the way the repository
//     builds it (NewTypedUnmanaged, NewQueue = rate limiting queue over
//     IngressReconcilerRateLimiter), with a recording reconciler.

import (
	"context"
	"fmt"
	"math/rand/v2"
	"strconv"
	"time"

	"github.com/go-logr/logr"
	k8sworkqueue "k8s.io/client-go/util/workqueue"
	"k8s.io/utils/ptr"
	ctrl "sigs.k8s.io/controller-runtime"
	"sigs.k8s.io/controller-runtime/pkg/controller"

	"github.com/jcmoraisjr/haproxy-ingress/pkg/utils/workqueue"
)

type c13req struct{ full bool }

type c13run struct {
	kind       string
	start, end time.Duration
}

type c13add struct {
	kind string
	at   time.Duration
}

func genC13(seed uint64, tier string, which string) *RunConfig {
	r := rand.New(rand.NewPCG(seed, 0xc13))
	rc := &RunConfig{Property: "C13", Profile: which, Seed: seed}
	intervals := []int{0, 1, 50, 1000, 5000, 30000, 120000}
	rc.Ctl.ReloadIntervalMs = intervals[1+r.IntN(len(intervals)-1)]
	rc.Ctl.RateLimitUpdate = []float64{0.5, 2, 10, 0.1}[r.IntN(4)]
	rc.Ctl.WaitBeforeUpdateMs = []int{0, 200, 1500, 3000}[r.IntN(4)]
	var base int
	if which == "reload" {
		base = rc.Ctl.ReloadIntervalMs
	} else {
		base = int(1000 / rc.Ctl.RateLimitUpdate)
	}
	n := 3 + r.IntN(10)
	if tier == "thorough" {
		n = 3 + r.IntN(25)
	}
	eps := []int{1, 2, 10, 49}[r.IntN(4)]
	if eps >= base && base > 1 {
		eps = 1
	}
	for i := 0; i < n; i++ {
		var gap int
		switch r.IntN(9) {
		case 0:
			gap = 0
		case 1:
			gap = eps
		case 2:
			gap = base - eps
		case 3:
			gap = base
		case 4:
			gap = base + eps
		case 5:
			gap = 2*base + eps
		case 6:
			gap = base / 2
		case 7:
			gap = r.IntN(2*base + 2)
		default:
			gap = r.IntN(base/4 + 2)
		}
		if gap < 0 {
			gap = 0
		}
		kind := "reload"
		if which == "reconcile" {
			kind = []string{"partial", "partial", "full"}[r.IntN(3)]
		}
		proc := []int{0, 0, 1, 20, base / 3, base + eps}[r.IntN(6)]
		rc.Ops = append(rc.Ops, Op{Type: "arrive", Kind: kind, Ms: gap, Key: strconv.Itoa(proc)})
	}
	rc.World = &World{}
	return rc
}

func runC13(r *Run) error {
	cfg := r.Cfg
	ctx, cancel := context.WithCancel(context.Background())
	defer cancel()
	t0 := time.Now()
	var runs []c13run
	var adds []c13add
	procOf := map[int]time.Duration{} // run index -> processing time
	nextProc := []time.Duration{}
	for _, op := range cfg.Ops {
		ms, _ := strconv.Atoi(op.Key)
		d := time.Duration(ms) * time.Millisecond
		if d > 0 {
			// off the millisecond grid: arrivals, intervals and delays are whole milliseconds, so the end of a
			// run never falls on the same fake instant as a queue timer (the order of two timers that expire
			// at the same instant is the one thing the fake clock leaves open)
			d += 137 * time.Microsecond
		}
		nextProc = append(nextProc, d)
	}
	record := func(kind string) {
		idx := len(runs)
		runs = append(runs, c13run{kind: kind, start: time.Since(t0)})
		d := time.Duration(0)
		if idx < len(nextProc) {
			d = nextProc[idx]
		}
		procOf[idx] = d
		if d > 0 {
			time.Sleep(d)
		}
		runs[idx].end = time.Since(t0)
	}
	interval := time.Duration(cfg.Ctl.ReloadIntervalMs) * time.Millisecond
	delta := time.Duration(float64(time.Second) / cfg.Ctl.RateLimitUpdate)
	wait := time.Duration(cfg.Ctl.WaitBeforeUpdateMs) * time.Millisecond

	var addFn func(kind string)
	switch cfg.Profile {
	case "reload":
		q := workqueue.New(func(context.Context, any) error { record("reload"); return nil }, workqueue.ReloadHAProxyRateLimiter(interval))
		go q.Start(ctx)
		addFn = func(string) { q.Add(nil) }
	case "reconcile":
		var queue k8sworkqueue.TypedRateLimitingInterface[c13req]
		rec := reconcileFunc(func(ctx context.Context, req c13req) (ctrl.Result, error) {
			if req.full {
				record("full")
			} else {
				record("partial")
			}
			return ctrl.Result{}, nil
		})
		opt := controller.TypedOptions[c13req]{
			LogConstructor: func(*c13req) logr.Logger { return logr.Discard() },
			NewQueue: func(name string, rl k8sworkqueue.TypedRateLimiter[c13req]) k8sworkqueue.TypedRateLimitingInterface[c13req] {
				queue = k8sworkqueue.NewTypedRateLimitingQueueWithConfig(rl, k8sworkqueue.TypedRateLimitingQueueConfig[c13req]{Name: name})
				return queue
			},
			RateLimiter:        workqueue.IngressReconcilerRateLimiter[c13req](cfg.Ctl.RateLimitUpdate, wait),
			Reconciler:         rec,
			RecoverPanic:       ptr.To(true),
			SkipNameValidation: ptr.To(true),
		}
		mgr := &simManager{k: r.kube, log: logr.Discard()}
		c, err := controller.NewTypedUnmanaged("c13", mgr, opt)
		if err != nil {
			return err
		}
		go c.Start(ctx)
		r.settle()
		if queue == nil {
			return harnessError("c13: controller did not create its queue")
		}
		addFn = func(kind string) { queue.AddRateLimited(c13req{full: kind == "full"}) }
	default:
		return harnessError("c13: unknown profile " + cfg.Profile)
	}
	r.settle()
	// start away from the zero time of the limiter
	time.Sleep(time.Duration(10+r.tape.Choose("c13.start", 50)) * time.Second)
	r.settle()
	for _, op := range cfg.Ops {
		if op.Ms > 0 {
			time.Sleep(time.Duration(op.Ms) * time.Millisecond)
			r.settle()
		}
		adds = append(adds, c13add{kind: op.Kind, at: time.Since(t0)})
		r.trace("add %s at %v", op.Kind, time.Since(t0))
		addFn(op.Kind)
		r.settle()
	}
	// let everything drain
	var totalProc time.Duration
	for _, d := range nextProc {
		totalProc += d
	}
	time.Sleep(4*max(interval, delta, wait) + totalProc + 10*time.Second)
	r.settle()
	cancel()
	r.settle()
	r.reconciles = len(runs)
	for i, ru := range runs {
		r.trace("run %d %s start=%v end=%v", i, ru.kind, ru.start, ru.end)
		r.sig = append(r.sig, fmt.Sprintf("run %s %v %v", ru.kind, ru.start.Round(100*time.Millisecond), ru.end.Round(100*time.Millisecond)))
	}
	for _, a := range adds {
		r.sig = append(r.sig, fmt.Sprintf("add %s %v", a.kind, a.at.Round(100*time.Millisecond)))
	}
	r.probe("c13_patterns")
	if len(adds) >= 3 {
		r.probe("c13_three_or_more_arrivals")
	}

	// ---- oracle
	min := interval
	if cfg.Profile == "reconcile" {
		min = delta
	}
	// Spacing is a property of the limiter: a run whose start was held back by the (single)
	// worker being busy with another run is measured from the instant it was due, which is
	// bounded below by the start of the run that blocked it.
	lastOf := map[string]int{}
	for i, ru := range runs {
		if pi, ok := lastOf[ru.kind]; ok {
			prev := runs[pi]
			prevDue := prev.start
			for k := pi - 1; k >= 0; k-- {
				// walk back the chain of runs executed back to back: prev waited for them
				if runs[k].end == prevDue && runs[k].end > runs[k].start {
					prevDue = runs[k].start
				} else if runs[k].end != runs[k].start {
					break
				}
			}
			if gap := ru.start - prevDue; gap < min {
				r.violate(&Violation{Property: "C13", Oracle: "spacing", Class: "spacing:" + cfg.Profile,
					Witness: fmt.Sprintf("run %d (%s) started %v after the previous %s run, minimum is %v; adds at %v, runs at %v", i, ru.kind, ru.start-prev.start, ru.kind, min, addTimes(adds, t0), runTimes(runs))})
				return nil
			}
		}
		lastOf[ru.kind] = i
	}
	if len(runs) > len(adds) {
		r.violate(&Violation{Property: "C13", Oracle: "coalescing", Class: "more-runs-than-notifications:" + cfg.Profile,
			Witness: fmt.Sprintf("%d runs for %d notifications; adds at %v, runs at %v", len(runs), len(adds), addTimes(adds, t0), runTimes(runs))})
		return nil
	}
	for _, a := range adds {
		// the run that serves this notification: first run of its kind starting at or after it
		served := -1
		for i, ru := range runs {
			if ru.kind == a.kind && ru.start >= a.at {
				served = i
				break
			}
		}
		if served < 0 {
			r.violate(&Violation{Property: "C13", Oracle: "liveness", Class: "notification-dropped:" + cfg.Profile,
				Witness: fmt.Sprintf("notification (%s) at %v was never followed by a run; adds at %v, runs at %v", a.kind, a.at, addTimes(adds, t0), runTimes(runs))})
			return nil
		}
		// bound: one full interval (the remaining interval is at most that) or the initial
		// wait, plus the time the single worker spent on other runs in between
		var busy time.Duration
		for i, ru := range runs {
			if i >= served {
				break
			}
			if ru.end > a.at {
				busy += ru.end - maxDur(ru.start, a.at)
			}
		}
		limit := a.at + maxDur(min, wait) + busy + time.Millisecond
		if cfg.Profile == "reload" {
			limit = a.at + min + busy + time.Millisecond
		}
		if runs[served].start > limit {
			r.violate(&Violation{Property: "C13", Oracle: "liveness", Class: "late-run:" + cfg.Profile,
				Witness: fmt.Sprintf("notification (%s) at %v was served at %v, later than %v (one interval / wait-before-update after it); adds at %v, runs at %v", a.kind, a.at, runs[served].start, limit, addTimes(adds, t0), runTimes(runs))})
			return nil
		}
	}
	return nil
}

func maxDur(a, b time.Duration) time.Duration {
	if a > b {
		return a
	}
	return b
}

func addTimes(adds []c13add, _ time.Time) []string {
	var out []string
	for _, a := range adds {
		out = append(out, fmt.Sprintf("%s@%v", a.kind[:1], a.at))
	}
	return out
}

func runTimes(runs []c13run) []string {
	var out []string
	for _, ru := range runs {
		out = append(out, fmt.Sprintf("%s@%v", ru.kind[:1], ru.start))
	}
	return out
}

type reconcileFunc func(ctx context.Context, req c13req) (ctrl.Result, error)

func (f reconcileFunc) Reconcile(ctx context.Context, req c13req) (ctrl.Result, error) {
	return f(ctx, req)
}

func init() {
	register(&Profile{Name: "reload", Prop: "C13", Weight: 1, Custom: runC13, Oracles: OracleSet{Property: "C13"},
		Build: func(seed uint64, tier string) *RunConfig { return genC13(seed, tier, "reload") }})
	register(&Profile{Name: "reconcile", Prop: "C13", Weight: 1, Custom: runC13, Oracles: OracleSet{Property: "C13"},
		Build: func(seed uint64, tier string) *RunConfig { return genC13(seed, tier, "reconcile") }})
}

// checkReconcileSpacing (L2): the real reconciler, watchers and leader
// subscriber feed the real queue; the instant a reconciliation reaches the
// worker is decided by the limiter alone. Two reconciliations of one kind
// (full, partial) keep at least 1/--rate-limit-update between them. Not judged:
// the retry after a failed reconciliation (RequeueAfter(reload-retry) by design)
// and everything before the start-up sync point.
func (r *Run) checkReconcileSpacing() {
	if r.lastArrival == nil {
		r.lastArrival = map[bool]time.Time{}
	}
	kind := !r.thisFullItem // the queue item, not what the converter made of it
	prev, seen := r.lastArrival[kind]
	prevBehind := r.lastBehind[kind]
	failedBefore := r.lastFailed
	// a reconciliation that waited behind a busy worker reached it later than the limiter
	// granted; only an arrival at an idle worker is the limiter's own instant
	behind := !r.curArrival.After(r.lastFinish)
	r.lastArrival[kind] = r.curArrival
	if r.lastBehind == nil {
		r.lastBehind = map[bool]bool{}
	}
	r.lastBehind[kind] = behind
	r.lastFailed = r.cur.failed
	r.lastFinish = time.Now()
	if !r.startupDone || !seen || failedBefore || r.cur.failed || prevBehind || r.Cfg.Ctl.RateLimitUpdate <= 0 {
		return
	}
	min := time.Duration(float64(time.Second) / r.Cfg.Ctl.RateLimitUpdate)
	gap := r.curArrival.Sub(prev)
	r.probe("c13_l2_spacing_checked")
	if gap < min-time.Millisecond {
		name := map[bool]string{true: "partial", false: "full"}[kind]
		r.violate(&Violation{Property: "C13", Oracle: "spacing-l2", Class: "spacing:reconcile-l2:" + name,
			Witness: fmt.Sprintf("reconciliation #%d (%s) reached the worker %v after the previous %s one, minimum is %v (rate-limit-update=%v)", r.reconciles, name, gap, name, min, r.Cfg.Ctl.RateLimitUpdate)})
	}
}

func init() {
	// L2: every producer of reconciliations (watchers, class and gateway events, the leader subscriber) in one run
	register(&Profile{Name: "producers-l2", Prop: "C13", Weight: 1,
		Oracles: OracleSet{Property: "C13", Spacing: true},
		Build: func(seed uint64, tier string) *RunConfig {
			r := cfgRng(seed)
			mn, mx := tierOps(tier, 8, 24)
			ctl := sampleCtl(r)
			ctl.Acme = true // brings the leadership seam in; no acme ingress is generated
			rc := &RunConfig{Property: "C13", Profile: "producers-l2", Seed: seed, Ctl: ctl, MapOrder: false, Lagfree: r.IntN(2) == 0}
			w := map[string]int{"ing_update": 10, "ing_ann": 6, "ep_scale": 8, "class_change": 4, "global_change": 2, "renotify": 4, "advance": 12}
			rc.World, rc.Ops = GenerateRun(seed, GenOptions{Sparse: true, IngressKeys: []string{"balance-algorithm", "timeout-server"}, GlobalKeys: []string{"timeout-client"},
				MinOps: mn, MaxOps: mx, QuiesceEvery: 6, KeysPerRun: 2, W: w})
			// lease changes at arbitrary points of the history
			var ops []Op
			leader := false
			for _, op := range rc.Ops {
				ops = append(ops, op)
				if r.IntN(4) == 0 {
					leader = !leader
					ops = append(ops, Op{Type: "leader", Note: fmt.Sprint(leader)})
					if r.IntN(2) == 0 {
						ops = append(ops, Op{Type: "advance", Ms: []int{1, 20, 100, 400, 900}[r.IntN(5)]})
					}
				}
			}
			rc.Ops = ops
			return rc
		}})
}
