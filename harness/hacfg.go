package hapsim

// Parser for what `haproxy -f <cfgdir>` loads: every *.cfg in the directory plus
// every map, list, crt-list, userlist and certificate file they reference, the
// loadability analysis (C07), and the behavioural normal form NF used to
// compare configurations.

import (
	"crypto/sha1"
	"encoding/hex"
	"fmt"
	"path/filepath"
	"regexp"
	"sort"
	"strconv"
	"strings"

	rt "github.com/jcmoraisjr/haproxy-ingress/zzsimrt"
)

// HALine is one directive.
type HALine struct {
	Raw string
	Tok []string
}

// HASection is one configuration section.
type HASection struct {
	Kind  string // global defaults frontend backend listen userlist resolvers ...
	Name  string
	File  string
	Lines []HALine
}

func (s *HASection) ID() string {
	if s.Name == "" {
		return s.Kind
	}
	return s.Kind + " " + s.Name
}

// HAServer is a parsed `server` line.
type HAServer struct {
	Name     string
	Addr     string
	Port     int
	Weight   int
	Disabled bool
	Cookie   string
	ID       string
	Rest     []string // the remaining options, in order
	Template bool
}

func (s *HAServer) IsEmptySlot() bool { return s.Disabled && s.Addr == "127.0.0.1" && s.Port == 1023 }

// HABackend is a backend (or listen) section with its servers.
type HABackend struct {
	Name    string
	Section *HASection
	Servers []*HAServer
}

// HAConfig is a loaded configuration: sections plus a snapshot of every file
// they reference (HAProxy reads those at load time only).
type HAConfig struct {
	Dir       string
	Prefix    string
	Sections  []*HASection
	ByID      map[string]*HASection
	Backends  map[string]*HABackend
	Files     map[string][]string // referenced text files: path -> data lines (comments stripped)
	CertFiles map[string][]byte   // referenced certificate bundles (crt-list entries and `crt` arguments)
	BinFiles  map[string]string   // other referenced files (ca-file, crl-file): path -> content hash
	Fatal     []string            // HAProxy would refuse to load
	Dangling  []string            // loads, but a reference resolves to nothing (C07 witnesses)
}

func (c *HAConfig) BackendNames() []string { return sortedKeys(c.Backends) }

var sectionKeywords = map[string]bool{
	"global": true, "defaults": true, "frontend": true, "backend": true, "listen": true, "userlist": true,
	"resolvers": true, "peers": true, "mailers": true, "cache": true, "program": true, "ring": true,
	"http-errors": true, "fcgi-app": true,
}

// tokenize splits a configuration line the way HAProxy does: blanks separate
// words, single and double quotes group, backslash escapes, `#` starts a comment.
func tokenize(line string) []string {
	var toks []string
	var cur strings.Builder
	in := false
	var quote byte
	for i := 0; i < len(line); i++ {
		ch := line[i]
		switch {
		case quote != 0:
			if ch == quote {
				quote = 0
			} else if ch == '\\' && quote == '"' && i+1 < len(line) {
				i++
				cur.WriteByte(line[i])
			} else {
				cur.WriteByte(ch)
			}
		case ch == '\\' && i+1 < len(line):
			i++
			cur.WriteByte(line[i])
			in = true
		case ch == '\'' || ch == '"':
			quote = ch
			in = true
		case ch == '#':
			if in {
				toks = append(toks, cur.String())
			}
			return toks
		case ch == ' ' || ch == '\t' || ch == '\r':
			if in {
				toks = append(toks, cur.String())
				cur.Reset()
				in = false
			}
		default:
			cur.WriteByte(ch)
			in = true
		}
	}
	if in {
		toks = append(toks, cur.String())
	}
	return toks
}

func dataLines(data []byte) []string {
	var out []string
	for _, l := range strings.Split(string(data), "\n") {
		t := strings.TrimSpace(l)
		if t == "" || strings.HasPrefix(t, "#") {
			continue
		}
		out = append(out, t)
	}
	return out
}

var (
	reMapCall  = regexp.MustCompile(`map(?:_[a-z]+)?\(([^,)]+)`)
	rePathID   = regexp.MustCompile(`^path[0-9]+$`)
	reHTTPAuth = regexp.MustCompile(`http_auth(?:_group)?\(([^)]+)\)`)
)

// LoadConfig parses the configuration directory as HAProxy would load it.
// It returns nil when there is no main configuration file at all.
func LoadConfig(d *rt.Disk, dir string) (*HAConfig, []string) {
	c := parseConfigDir(d, dir)
	if c == nil {
		return nil, []string{"no *.cfg file in " + dir}
	}
	return c, c.Fatal
}

func parseConfigDir(d *rt.Disk, dir string) *HAConfig {
	var files []string
	for _, p := range d.List(dir + "/") {
		if filepath.Dir(p) == dir && strings.HasSuffix(p, ".cfg") {
			files = append(files, p)
		}
	}
	if len(files) == 0 {
		return nil
	}
	sort.Strings(files)
	prefix := strings.TrimSuffix(dir, "/etc/haproxy")
	c := &HAConfig{Dir: dir, Prefix: prefix, ByID: map[string]*HASection{}, Backends: map[string]*HABackend{},
		Files: map[string][]string{}, CertFiles: map[string][]byte{}, BinFiles: map[string]string{}}
	for _, f := range files {
		data, _ := d.Get(f)
		var cur *HASection
		for _, raw := range strings.Split(string(data), "\n") {
			tok := tokenize(raw)
			if len(tok) == 0 {
				continue
			}
			indented := raw[0] == ' ' || raw[0] == '\t'
			if !indented && sectionKeywords[tok[0]] {
				cur = &HASection{Kind: tok[0], File: f}
				if len(tok) > 1 {
					cur.Name = tok[1]
				}
				c.Sections = append(c.Sections, cur)
				if cur.Kind == "global" || cur.Kind == "defaults" {
					// may legitimately repeat (main file + shards)
					if c.ByID[cur.ID()] == nil {
						c.ByID[cur.ID()] = cur
					}
					continue
				}
				if prev := c.ByID[cur.ID()]; prev != nil {
					c.Fatal = append(c.Fatal, fmt.Sprintf("duplicated section '%s' (%s and %s)", cur.ID(), filepath.Base(prev.File), filepath.Base(f)))
				} else {
					c.ByID[cur.ID()] = cur
				}
				continue
			}
			if cur == nil {
				c.Fatal = append(c.Fatal, fmt.Sprintf("%s: directive outside any section: %s", filepath.Base(f), strings.TrimSpace(raw)))
				continue
			}
			cur.Lines = append(cur.Lines, HALine{Raw: strings.TrimSpace(raw), Tok: tok})
		}
		if len(data) > 0 && !strings.HasSuffix(string(data), "\n") {
			c.Fatal = append(c.Fatal, fmt.Sprintf("%s: missing LF on last line (truncated file)", filepath.Base(f)))
		}
	}
	c.analyse(d)
	return c
}

func (c *HAConfig) hasProxy(name string) bool {
	return c.ByID["backend "+name] != nil || c.ByID["listen "+name] != nil
}

func (c *HAConfig) readTextFile(d *rt.Disk, path, why string) bool {
	if _, ok := c.Files[path]; ok {
		return true
	}
	data, ok := d.Get(path)
	if !ok {
		c.Fatal = append(c.Fatal, fmt.Sprintf("%s: file not found: %s", why, strings.TrimPrefix(path, c.Prefix)))
		return false
	}
	c.Files[path] = dataLines(data)
	return true
}

func (c *HAConfig) readCert(d *rt.Disk, path, why string) {
	if _, ok := c.CertFiles[path]; ok {
		return
	}
	data, ok := d.Get(path)
	if !ok {
		c.Fatal = append(c.Fatal, fmt.Sprintf("%s: certificate file not found: %s", why, strings.TrimPrefix(path, c.Prefix)))
		return
	}
	if !validPEMPair(data) {
		c.Fatal = append(c.Fatal, fmt.Sprintf("%s: unable to load certificate: %s", why, strings.TrimPrefix(path, c.Prefix)))
	}
	c.CertFiles[path] = data
}

func (c *HAConfig) readBin(d *rt.Disk, path, why string) {
	if _, ok := c.BinFiles[path]; ok {
		return
	}
	data, ok := d.Get(path)
	if !ok {
		c.Fatal = append(c.Fatal, fmt.Sprintf("%s: file not found: %s", why, strings.TrimPrefix(path, c.Prefix)))
		return
	}
	h := sha1.Sum(data)
	c.BinFiles[path] = hex.EncodeToString(h[:8])
}

func parseServer(tok []string) *HAServer {
	s := &HAServer{Name: tok[1], Weight: 1}
	if tok[0] == "server-template" {
		// server-template <prefix> <num> <fqdn>[:port] ...
		s.Template = true
		if len(tok) > 3 {
			s.Addr = tok[3]
			s.Rest = append(s.Rest, tok[2])
			tok = tok[1:]
		}
	} else if len(tok) > 2 {
		addr := tok[2]
		if i := strings.LastIndexByte(addr, ':'); i > 0 && !strings.Contains(addr, "/") {
			s.Addr = addr[:i]
			s.Port, _ = strconv.Atoi(addr[i+1:])
		} else {
			s.Addr = addr
		}
	}
	for i := 3; i < len(tok); i++ {
		switch tok[i] {
		case "disabled":
			s.Disabled = true
		case "weight":
			if i+1 < len(tok) {
				s.Weight, _ = strconv.Atoi(tok[i+1])
				i++
			}
		case "cookie":
			if i+1 < len(tok) {
				s.Cookie = tok[i+1]
				i++
			}
		case "id":
			if i+1 < len(tok) {
				s.ID = tok[i+1]
				i++
			}
		default:
			s.Rest = append(s.Rest, tok[i])
		}
	}
	return s
}

// analyse resolves references and records what HAProxy would refuse (Fatal)
// and what resolves to nothing at run time (Dangling).
func (c *HAConfig) analyse(d *rt.Disk) {
	binds := map[string]string{}
	for _, s := range c.Sections {
		isProxy := s.Kind == "backend" || s.Kind == "listen" || s.Kind == "frontend"
		var be *HABackend
		if (s.Kind == "backend" || s.Kind == "listen") && c.ByID[s.ID()] == s {
			be = &HABackend{Name: s.Name, Section: s}
			c.Backends[s.Name] = be
		}
		srvNames := map[string]bool{}
		srvIDs := map[string]bool{}
		for _, l := range s.Lines {
			t := l.Tok
			why := s.ID()
			switch t[0] {
			case "server", "server-template":
				if len(t) < 3 {
					c.Fatal = append(c.Fatal, why+": malformed server line: "+l.Raw)
					continue
				}
				sv := parseServer(t)
				if srvNames[sv.Name] {
					c.Fatal = append(c.Fatal, fmt.Sprintf("%s: duplicated server name '%s'", why, sv.Name))
				}
				srvNames[sv.Name] = true
				if sv.ID != "" {
					if srvIDs[sv.ID] {
						c.Fatal = append(c.Fatal, fmt.Sprintf("%s: duplicated server id %s", why, sv.ID))
					}
					srvIDs[sv.ID] = true
				}
				if be != nil {
					be.Servers = append(be.Servers, sv)
				}
				for i, w := range t {
					if (w == "ca-file" || w == "crl-file") && i+1 < len(t) {
						c.readBin(d, t[i+1], why)
					}
					if w == "crt" && i+1 < len(t) {
						c.readCert(d, t[i+1], why)
					}
				}
			case "use_backend":
				if len(t) > 1 && !strings.Contains(t[1], "%[") && !c.hasProxy(t[1]) {
					c.Fatal = append(c.Fatal, fmt.Sprintf("%s: use_backend: unable to find required backend '%s'", why, t[1]))
				}
			case "default_backend":
				if len(t) > 1 && !c.hasProxy(t[1]) {
					c.Fatal = append(c.Fatal, fmt.Sprintf("%s: default_backend: unable to find required backend '%s'", why, t[1]))
				}
			case "use-server":
				// checked below once all servers are known
			case "bind":
				if len(t) > 1 && isProxy {
					addr := t[1]
					if !strings.HasPrefix(addr, "unix@") {
						if prev, dup := binds[addr]; dup {
							c.Fatal = append(c.Fatal, fmt.Sprintf("%s: bind address %s already used by %s", why, addr, prev))
						}
						binds[addr] = why
					}
					for i, w := range t {
						if w == "crt-list" && i+1 < len(t) {
							if c.readTextFile(d, t[i+1], why) {
								for _, cl := range c.Files[t[i+1]] {
									f := strings.Fields(cl)
									c.readCert(d, f[0], why+" crt-list")
									for j, w2 := range f {
										w2 = strings.TrimPrefix(w2, "[")
										if (w2 == "ca-file" || w2 == "crl-file") && j+1 < len(f) {
											c.readBin(d, strings.TrimSuffix(f[j+1], "]"), why+" crt-list")
										}
									}
								}
							}
						}
						if w == "crt" && i+1 < len(t) {
							c.readCert(d, t[i+1], why)
						}
						if (w == "ca-file" || w == "crl-file") && i+1 < len(t) {
							c.readBin(d, t[i+1], why)
						}
					}
				}
			}
			// references found anywhere on the line
			for _, m := range reMapCall.FindAllStringSubmatch(l.Raw, -1) {
				c.readTextFile(d, m[1], why)
			}
			for i, w := range t {
				if w == "-f" && i+1 < len(t) && strings.HasPrefix(t[i+1], "/") {
					c.readTextFile(d, t[i+1], why)
				}
			}
			for _, m := range reHTTPAuth.FindAllStringSubmatch(l.Raw, -1) {
				if c.ByID["userlist "+m[1]] == nil {
					c.Fatal = append(c.Fatal, fmt.Sprintf("%s: unable to find userlist '%s' referenced in arg 1 of ACL keyword 'http_auth'", why, m[1]))
				}
			}
		}
		if be != nil {
			for _, l := range s.Lines {
				if l.Tok[0] == "use-server" && len(l.Tok) > 1 && !srvNames[l.Tok[1]] {
					c.Fatal = append(c.Fatal, fmt.Sprintf("%s: use-server: unable to find server '%s'", s.ID(), l.Tok[1]))
				}
			}
		}
	}
	// second pass: values of backend-selecting maps, path ids
	for _, s := range c.Sections {
		if s.Kind != "backend" && s.Kind != "listen" && s.Kind != "frontend" {
			continue
		}
		known := map[string]bool{}
		var used []string
		for _, l := range s.Lines {
			// set-var(<var>) ...,map_x(file) : which variable receives the lookup
			if v, file := setVarMap(l); v != "" {
				switch v {
				case "req.backend", "req.hostbackend", "req.defaultbackend", "req.snibackend", "req.tcpback", "req.sslpassback":
					for _, ml := range c.Files[file] {
						f := strings.Fields(ml)
						if len(f) >= 2 && !c.hasProxy(f[1]) {
							c.Dangling = append(c.Dangling, fmt.Sprintf("%s: map %s: value '%s' (key %s) names no backend", s.ID(), filepath.Base(file), f[1], f[0]))
						}
					}
				case "txn.pathID":
					for _, ml := range c.Files[file] {
						f := strings.Fields(ml)
						if len(f) >= 2 {
							known[f[1]] = true
						}
					}
				}
			}
			for _, w := range l.Tok {
				if rePathID.MatchString(w) {
					used = append(used, w)
				}
			}
		}
		for _, id := range used {
			if !known[id] {
				c.Dangling = append(c.Dangling, fmt.Sprintf("%s: path id %s is used in a rule but no path map yields it", s.ID(), id))
			}
		}
	}
}

var reSetVar = regexp.MustCompile(`set-var\(([^)]+)\)`)

// setVarMap returns (variable, map file) for `... set-var(v) <sample>,map_x(file...)`.
func setVarMap(l HALine) (string, string) {
	m := reSetVar.FindStringSubmatch(l.Raw)
	if m == nil {
		return "", ""
	}
	fm := reMapCall.FindStringSubmatch(l.Raw)
	if fm == nil {
		return "", ""
	}
	return m[1], fm[1]
}

// ---------------------------------------------------------------------------
// Normal form

// NF is the behavioural normal form: section id -> normalised lines, with
// referenced files inlined by content and internal labels removed.
type NF map[string][]string

// NFOptions selects runtime overrides (effective state of a running HAProxy).
type NFOptions struct {
	// Servers overrides the server state per backend (runtime view).
	Servers map[string]map[string]*SrvState
	// Certs overrides the certificate content per file (runtime view).
	Certs map[string][]byte
	// RuntimeView: compare what a running HAProxy does: disabled servers are
	// dropped whatever their address, a drained server is a weight-0 server,
	// server cookies are kept only when the backend preserves them.
	RuntimeView bool
}

func (c *HAConfig) strip(s string) string {
	if c.Prefix == "" {
		return s
	}
	return strings.ReplaceAll(s, c.Prefix, "")
}

func (c *HAConfig) certID(path string, opt *NFOptions) string {
	var data []byte
	if opt != nil && opt.Certs != nil {
		if d, ok := opt.Certs[path]; ok {
			data = d
		}
	}
	if data == nil {
		data = c.CertFiles[path]
	}
	if data == nil {
		return "cert:missing"
	}
	if id := certIdentity(data); id != "" {
		if strings.HasPrefix(id, "Kubernetes Ingress Controller Fake Certificate#") {
			// every controller instance generates its own self-signed default
			return "cert:fake-default"
		}
		return "cert:" + id
	}
	h := sha1.Sum(data)
	return "cert:raw-" + hex.EncodeToString(h[:6])
}

// pathIDKeys maps the path ids of a backend section to the sorted keys that
// yield them in its idpath maps.
func (c *HAConfig) pathIDKeys(s *HASection) map[string]string {
	keys := map[string][]string{}
	for _, l := range s.Lines {
		if v, file := setVarMap(l); v == "txn.pathID" {
			method := "map"
			if m := regexp.MustCompile(`map_([a-z]+)\(`).FindStringSubmatch(l.Raw); m != nil {
				method = m[1]
			}
			for _, ml := range c.Files[file] {
				f := strings.Fields(ml)
				if len(f) >= 2 {
					keys[f[1]] = append(keys[f[1]], method+":"+f[0])
				}
			}
		}
	}
	out := map[string]string{}
	for id, ks := range keys {
		sort.Strings(ks)
		out[id] = "<" + strings.Join(ks, "|") + ">"
	}
	return out
}

var reAuthName = regexp.MustCompile(`_auth_[0-9]+`)
var reAuthBackend = regexp.MustCompile(`^_auth_backend[0-9]+_[0-9]+$`)

// authBackendNames: _auth_backendNNN_<port> carries a sequence number given in
// acquisition order; the name is replaced by what identifies the backend: its
// servers and the Host header it sets.
func (c *HAConfig) authBackendNames() map[string]string {
	out := map[string]string{}
	for name, be := range c.Backends {
		if !reAuthBackend.MatchString(name) {
			continue
		}
		var ids []string
		tls := ""
		for _, sv := range be.Servers {
			if !sv.IsEmptySlot() {
				ids = append(ids, fmt.Sprintf("%s:%d", sv.Addr, sv.Port))
			}
			for _, o := range sv.Rest {
				if o == "ssl" {
					// http:// and https:// users of one address have a backend each (FX-auth-backend-scheme-shared)
					tls = "|tls"
				}
			}
		}
		sort.Strings(ids)
		host := ""
		if be.Section != nil {
			for _, l := range be.Section.Lines {
				if len(l.Tok) >= 4 && l.Tok[0] == "http-request" && l.Tok[1] == "set-header" && l.Tok[2] == "Host" {
					host = l.Tok[3]
				}
			}
		}
		out[name] = "_auth_backend{" + strings.Join(ids, ",") + "|" + host + tls + "}"
	}
	return out
}

// NormalForm computes NF. The rules (each is an assumption listed in the
// evidence): file names disappear (content inlined); the file-system prefix is
// stripped; certificate files are replaced by the identity of the key pair;
// server slot names, disabled 127.0.0.1:1023 slots and server order are removed
// (a cookie equal to the slot name is removed with it); use-server names are
// replaced by the server's address; path ids are replaced by the map keys that
// yield them; auth-proxy backends/ports/socket ids are renamed after the
// backend they front.
func (c *HAConfig) NormalForm(opt *NFOptions) NF {
	nf := NF{}
	// auth proxy renaming: _auth_<port> -> _auth{<target>}
	authName := map[string]string{}
	authBack := c.authBackendNames()
	renameBack := func(n string) string {
		if an, ok := authBack[n]; ok {
			return an
		}
		return n
	}
	if fs := c.authProxyFrontend(); fs != nil {
		idToPort := map[string]string{}
		var onlyPort string
		for _, l := range fs.Lines {
			if l.Tok[0] == "bind" && len(l.Tok) > 1 {
				port := l.Tok[1][strings.LastIndexByte(l.Tok[1], ':')+1:]
				onlyPort = port
				for i, w := range l.Tok {
					if w == "id" && i+1 < len(l.Tok) {
						idToPort[l.Tok[i+1]] = port
					}
				}
			}
		}
		for _, l := range fs.Lines {
			if l.Tok[0] == "use_backend" && len(l.Tok) > 1 {
				port := onlyPort
				for i, w := range l.Tok {
					if w == "so_id" && i+1 < len(l.Tok) {
						port = idToPort[l.Tok[i+1]]
					}
				}
				authName["_auth_"+port] = "_auth{" + renameBack(l.Tok[1]) + "}"
			}
		}
	}
	for _, s := range c.Sections {
		id := s.ID()
		if c.ByID[id] != s {
			if s.Kind == "global" || s.Kind == "defaults" {
				continue // repeated verbatim in shard files
			}
			id = id + " (duplicate)"
		}
		if an, ok := authName[s.Name]; ok && s.Kind == "backend" {
			id = "backend " + an
		}
		if an, ok := authBack[s.Name]; ok && s.Kind == "backend" && !strings.HasSuffix(id, "(duplicate)") {
			id = "backend " + an
		}
		pathKeys := map[string]string{}
		if s.Kind == "backend" || s.Kind == "listen" {
			pathKeys = c.pathIDKeys(s)
		}
		srvAddr := map[string]string{}
		if be := c.Backends[s.Name]; be != nil && be.Section == s {
			for _, sv := range be.Servers {
				srvAddr[sv.Name] = fmt.Sprintf("%s:%d", sv.Addr, sv.Port)
			}
		}
		var lines []string
		var servers []string
		isAuthFront := s == c.authProxyFrontend()
		preserve := false
		for _, l := range s.Lines {
			if l.Tok[0] == "cookie" {
				for _, w := range l.Tok {
					if w == "preserve" {
						preserve = true
					}
				}
			}
		}
		for _, l := range s.Lines {
			t := l.Tok
			switch {
			case (t[0] == "server" || t[0] == "server-template") && len(t) >= 3:
				sv := parseServer(t)
				if opt != nil && opt.Servers != nil {
					if st := opt.Servers[s.Name][sv.Name]; st != nil {
						sv.Addr, sv.Port, sv.Weight = st.Addr, st.Port, st.Weight
						sv.Disabled = st.Maint
						if st.Drain {
							sv.Weight = 0
						}
					}
				}
				if sv.IsEmptySlot() || (sv.Disabled && opt != nil && opt.RuntimeView) {
					continue
				}
				cookie := sv.Cookie
				if cookie == sv.Name || (opt != nil && opt.RuntimeView && !preserve) {
					cookie = ""
				}
				name := ""
				if s.Kind != "backend" || strings.HasPrefix(s.Name, "_") || sv.Template || (opt != nil && opt.RuntimeView) {
					// support backends: names are fixed labels. Running state against the files of the same
					// controller (C02): the slot a server sits in is part of what must agree
					name = sv.Name
					if an, ok := authName[name]; ok {
						name = an
					}
				}
				addr := fmt.Sprintf("%s:%d", sv.Addr, sv.Port)
				if sv.Port == 0 {
					addr = c.strip(sv.Addr)
				}
				if _, isAuth := authName[s.Name]; isAuth {
					addr = "127.0.0.1:<authport>"
				}
				line := fmt.Sprintf("server %s %s", name, addr)
				if sv.Disabled {
					line += " disabled"
				}
				line += fmt.Sprintf(" weight %d", sv.Weight)
				if cookie != "" {
					line += " cookie " + cookie
				}
				if sv.ID != "" && !(opt != nil && opt.RuntimeView) {
					// a server id cannot be changed at run time and is not part of
					// what C02 lists; it is compared on disk (C01) only
					line += " id " + sv.ID
				}
				line += " " + c.normTokens(s, sv.Rest, pathKeys, authName, opt)
				servers = append(servers, strings.TrimSpace(line))
			case t[0] == "use-server" && len(t) > 1:
				rest := c.normTokens(s, t[2:], pathKeys, authName, opt)
				lines = append(lines, "use-server "+srvAddr[t[1]]+" "+rest)
			case isAuthFront && t[0] == "bind":
				lines = append(lines, "bind 127.0.0.1:<authport>")
			case isAuthFront && t[0] == "use_backend":
				lines = append(lines, "use_backend "+renameBack(t[1])+" if <its auth port>")
			default:
				lines = append(lines, c.normTokens(s, t, pathKeys, authName, opt))
			}
		}
		if isAuthFront {
			sort.Strings(lines)
		}
		// use-server rules with one and the same condition (several pods of a blue/green group) follow
		// the order of the server slots, which is history like the slot names: sorted inside such a run
		for i := 0; i < len(lines); {
			j := i
			// (rules of different groups test different values of one header or cookie: their order is
			// immaterial; rules of one group follow the slot order: history, like the slot names)
			for j < len(lines) && strings.HasPrefix(lines[j], "use-server ") && strings.HasPrefix(lines[i], "use-server ") {
				j++
			}
			if j-i > 1 {
				sort.Strings(lines[i:j])
			}
			if j == i {
				j++
			}
			i = j
		}
		lines = canonLookups(lines)
		sort.Strings(servers)
		nf[id] = append(lines, servers...)
	}
	return nf
}

// useServerCond returns what follows the server of a normalised use-server line.
func useServerCond(l string) string {
	f := strings.SplitN(l, " ", 3)
	if len(f) < 3 {
		return ""
	}
	return f[2]
}

func (c *HAConfig) binID(path string) string {
	if strings.HasSuffix(path, "/ca__fake-default.pem") {
		// every controller instance generates its own fake CA
		return "bin:fake-ca"
	}
	return "bin:" + c.BinFiles[path]
}

func (c *HAConfig) authProxyFrontend() *HASection {
	// auth-proxy names the frontend; _front__auth__local is the default
	for _, id := range []string{"frontend _front__auth", "frontend _front__auth__local"} {
		if s := c.ByID[id]; s != nil {
			return s
		}
	}
	return nil
}

var reMapArg = regexp.MustCompile(`(map(?:_[a-z]+)?)\(([^,)]+)([,)])`)

func (c *HAConfig) inlineFile(path string, pathKeys map[string]string) string {
	lines, ok := c.Files[path]
	if !ok {
		return "<<missing file>>"
	}
	out := make([]string, len(lines))
	for i, l := range lines {
		f := strings.Fields(l)
		for j, w := range f {
			if j > 0 && rePathID.MatchString(w) {
				if k, ok := pathKeys[w]; ok {
					f[j] = k
				}
			}
		}
		out[i] = c.strip(strings.Join(f, " "))
	}
	return "<<" + strings.Join(out, " ; ") + ">>"
}

func (c *HAConfig) normTokens(s *HASection, t []string, pathKeys map[string]string, authName map[string]string, opt *NFOptions) string {
	out := make([]string, 0, len(t))
	for i := 0; i < len(t); i++ {
		w := t[i]
		switch {
		case rePathID.MatchString(w):
			// a run of path ids: replace and sort
			j := i
			var ids []string
			for j < len(t) && rePathID.MatchString(t[j]) {
				k, ok := pathKeys[t[j]]
				if !ok {
					k = "<unknown " + t[j] + ">"
				}
				ids = append(ids, k)
				j++
			}
			sort.Strings(ids)
			out = append(out, ids...)
			i = j - 1
			continue
		case w == "crt-list" && i+1 < len(t):
			out = append(out, "crt-list", c.inlineCrtList(t[i+1], opt))
			i++
			continue
		case (w == "crt") && i+1 < len(t) && strings.HasPrefix(t[i+1], "/"):
			out = append(out, "crt", c.certID(t[i+1], opt))
			i++
			continue
		case (w == "ca-file" || w == "crl-file") && i+1 < len(t):
			out = append(out, w, c.binID(t[i+1]))
			i++
			continue
		case w == "-f" && i+1 < len(t) && strings.HasPrefix(t[i+1], "/"):
			out = append(out, "-f", c.inlineFile(t[i+1], pathKeys))
			i++
			continue
		}
		if strings.Contains(w, "map") && reMapArg.MatchString(w) {
			w = reMapArg.ReplaceAllStringFunc(w, func(m string) string {
				sm := reMapArg.FindStringSubmatch(m)
				return sm[1] + "(" + c.inlineFile(sm[2], pathKeys) + sm[3]
			})
		}
		if strings.Contains(w, "_auth_") {
			w = reAuthName.ReplaceAllStringFunc(w, func(m string) string {
				if an, ok := authName[m]; ok {
					return an
				}
				return m
			})
		}
		out = append(out, c.strip(w))
	}
	return strings.Join(out, " ")
}

func (c *HAConfig) inlineCrtList(path string, opt *NFOptions) string {
	lines, ok := c.Files[path]
	if !ok {
		return "<<missing crt-list>>"
	}
	var out []string
	for i, l := range lines {
		f := strings.Fields(l)
		f[0] = c.certID(f[0], opt)
		for j, w := range f {
			w = strings.TrimPrefix(w, "[")
			if (w == "ca-file" || w == "crl-file") && j+1 < len(f) {
				p := strings.TrimSuffix(f[j+1], "]")
				suffix := f[j+1][len(p):]
				f[j+1] = c.binID(p) + suffix
			}
		}
		e := strings.Join(f, " ")
		if i == 0 {
			e = "default " + e
		}
		out = append(out, e)
	}
	// the first line is the default certificate; the others are looked up by
	// SNI filter, so their order is irrelevant
	if len(out) > 1 {
		sort.Strings(out[1:])
	}
	return "<<" + strings.Join(out, " ; ") + ">>"
}

// DiffNF returns a description of the first difference, or "".
func DiffNF(a, b NF, an, bn string) string {
	ids := map[string]bool{}
	for id := range a {
		ids[id] = true
	}
	for id := range b {
		ids[id] = true
	}
	for _, id := range sortedKeys(ids) {
		la, oka := a[id]
		lb, okb := b[id]
		if !oka {
			return fmt.Sprintf("section '%s' only in %s", id, bn)
		}
		if !okb {
			return fmt.Sprintf("section '%s' only in %s", id, an)
		}
		n := len(la)
		if len(lb) > n {
			n = len(lb)
		}
		for i := 0; i < n; i++ {
			var x, y string
			if i < len(la) {
				x = la[i]
			}
			if i < len(lb) {
				y = lb[i]
			}
			if x != y {
				return fmt.Sprintf("section '%s' line %d:\n   %s: %s\n   %s: %s", id, i+1, an, clip(x), bn, clip(y))
			}
		}
	}
	return ""
}

func clip(s string) string {
	if len(s) > 600 {
		return s[:600] + "…"
	}
	if s == "" {
		return "<absent>"
	}
	return s
}

// Hash returns a short hash of the normal form (distinct-state measure).
func (n NF) Hash() string {
	h := sha1.New()
	for _, id := range sortedKeys(n) {
		h.Write([]byte(id))
		h.Write([]byte{0})
		for _, l := range n[id] {
			h.Write([]byte(l))
			h.Write([]byte{1})
		}
	}
	return hex.EncodeToString(h.Sum(nil)[:8])
}

// ---------------------------------------------------------------------------
// canonical form of map lookups

// canonLookups replaces every maximal run of consecutive map lookups that set
// the same variable by the decision table of the run over its probe set (see
// haeval.go): equivalent file layouts (how entries are split into files, order
// of files that cannot both match) compare equal, a different outcome for any
// probe does not.
func canonLookups(lines []string) []string {
	var out []string
	i := 0
	for i < len(lines) {
		first := parseLookupStep(lines[i])
		if first == nil {
			out = append(out, lines[i])
			i++
			continue
		}
		run := []*lookupStep{first}
		j := i + 1
		for j < len(lines) {
			l := parseLookupStep(lines[j])
			if l == nil || l.Var != first.Var {
				break
			}
			run = append(run, l)
			j++
		}
		out = append(out, "lookup "+first.Var+" := {"+strings.Join(decisionTable(run), " | ")+"}")
		i = j
	}
	return out
}
