package hapsim

import rt "github.com/jcmoraisjr/haproxy-ingress/zzsimrt"

type HAServer struct {
	Name     string
	Addr     string
	Port     int
	Weight   int
	Disabled bool
	Cookie   string
}
type HABackend struct {
	Name    string
	Servers []*HAServer
}
type HAConfig struct {
	Backends  map[string]*HABackend
	CertFiles map[string][]byte
}

func (c *HAConfig) BackendNames() []string { return sortedKeys(c.Backends) }

func LoadConfig(d *rt.Disk, dir string) (*HAConfig, []string) {
	return &HAConfig{Backends: map[string]*HABackend{}, CertFiles: map[string][]byte{}}, nil
}
