package hapsim

// Controller assembly. L2: the real Services + IngressReconciler + the
// controller-runtime controller, attached to SimKube through the stub manager.
// L1: a second, fresh Services used as oracle through ReconcileIngress.

import (
	"context"
	"fmt"
	"strings"
	"time"

	"github.com/go-logr/logr"
	"k8s.io/apimachinery/pkg/runtime"
	clientgoscheme "k8s.io/client-go/kubernetes/scheme"
	"k8s.io/client-go/rest"
	gatewayv1 "sigs.k8s.io/gateway-api/apis/v1"
	gatewayv1alpha2 "sigs.k8s.io/gateway-api/apis/v1alpha2"
	gatewayv1beta1 "sigs.k8s.io/gateway-api/apis/v1beta1"

	"github.com/jcmoraisjr/haproxy-ingress/pkg/acme"
	ctrlconfig "github.com/jcmoraisjr/haproxy-ingress/pkg/controller/config"
	"github.com/jcmoraisjr/haproxy-ingress/pkg/controller/reconciler"
	"github.com/jcmoraisjr/haproxy-ingress/pkg/controller/services"
	convtypes "github.com/jcmoraisjr/haproxy-ingress/pkg/converters/types"
)

// CtlConfig is the swarm-chosen controller configuration of a run (the
// command-line options of the controller).
type CtlConfig struct {
	BackendShards            int      `json:"backend_shards"`
	ReloadIntervalMs         int      `json:"reload_interval_ms"`
	ReloadRetryMs            int      `json:"reload_retry_ms"`
	RateLimitUpdate          float64  `json:"rate_limit_update"`
	WaitBeforeUpdateMs       int      `json:"wait_before_update_ms"`
	WatchIngressWithoutClass bool     `json:"watch_ingress_without_class"`
	IngressClassPrecedence   bool     `json:"ingress_class_precedence"`
	AllowCrossNamespace      bool     `json:"allow_cross_namespace"`
	DefaultService           string   `json:"default_service,omitempty"`
	DefaultSSLCertificate    string   `json:"default_ssl_certificate,omitempty"`
	SortEndpointsBy          string   `json:"sort_endpoints_by,omitempty"`
	DisableKeywords          []string `json:"disable_keywords,omitempty"`
	Acme                     bool     `json:"acme,omitempty"`
	AcmeTrackTLSAnn          bool     `json:"acme_track_tls_ann,omitempty"`
	Gateway                  bool     `json:"gateway,omitempty"`
	GatewayB1                bool     `json:"gateway_b1,omitempty"`
	GatewayA2                bool     `json:"gateway_a2,omitempty"`
	TCPConfigMap             bool     `json:"tcp_configmap,omitempty"`
	DisableExternalName      bool     `json:"disable_external_name,omitempty"`
	TrackOldInstances        bool     `json:"track_old_instances,omitempty"`
}

const (
	globalConfigMapName = "ingress-controller/haproxy-ingress"
	tcpConfigMapName    = "ingress-controller/haproxy-tcp"
	controllerName      = "haproxy-ingress.github.io/controller"
	ingressClassName    = "haproxy"
	podNamespace        = "ingress-controller"
)

func newScheme() *runtime.Scheme {
	s := runtime.NewScheme()
	_ = clientgoscheme.AddToScheme(s)
	_ = gatewayv1.Install(s)
	_ = gatewayv1beta1.Install(s)
	_ = gatewayv1alpha2.Install(s)
	return s
}

func (cc *CtlConfig) build(prefix string, scheme *runtime.Scheme, ctx context.Context) *ctrlconfig.Config {
	sortBy := cc.SortEndpointsBy
	if sortBy == "" {
		sortBy = "endpoint"
	}
	cfg := &ctrlconfig.Config{
		AnnPrefix:                []string{"haproxy-ingress.github.io", "ingress.kubernetes.io"},
		BackendShards:            cc.BackendShards,
		BucketsResponseTime:      []float64{.0005, .001, .002, .005, .01},
		ConfigMapName:            globalConfigMapName,
		ControllerName:           controllerName,
		DefaultDirCerts:          prefix + "/var/lib/haproxy/crt",
		DefaultDirCACerts:        prefix + "/var/lib/haproxy/cacerts",
		DefaultDirCrl:            prefix + "/var/lib/haproxy/crl",
		DefaultDirDHParam:        prefix + "/var/lib/haproxy/dhparam",
		DefaultDirMaps:           prefix + "/etc/haproxy/maps",
		DefaultDirVarRun:         prefix + "/var/run/haproxy",
		DefaultService:           cc.DefaultService,
		DefaultSSLCertificate:    cc.DefaultSSLCertificate,
		DisableExternalName:      cc.DisableExternalName,
		DisableKeywords:          cc.DisableKeywords,
		AllowCrossNamespace:      cc.AllowCrossNamespace,
		Election:                 false,
		ElectionID:               "hapsim",
		ElectionNamespace:        podNamespace,
		HasGatewayV1:             cc.Gateway,
		HasGatewayB1:             cc.GatewayB1,
		HasGatewayA2:             cc.GatewayA2,
		HasTCPRouteA2:            cc.Gateway || cc.GatewayA2,
		HealthzAddr:              "",
		IngressClass:             ingressClassName,
		IngressClassPrecedence:   cc.IngressClassPrecedence,
		KubeConfig:               &rest.Config{Host: "http://127.0.0.1:1"},
		LocalFSPrefix:            prefix,
		MasterSocket:             prefix + "/var/run/haproxy/master.sock",
		MasterWorker:             true,
		PodName:                  "hapsim-0",
		PodNamespace:             podNamespace,
		RateLimitUpdate:          cc.RateLimitUpdate,
		ReloadInterval:           time.Duration(cc.ReloadIntervalMs) * time.Millisecond,
		ReloadRetry:              time.Duration(cc.ReloadRetryMs) * time.Millisecond,
		RootContext:              ctx,
		Scheme:                   scheme,
		SortEndpointsBy:          sortBy,
		WaitBeforeUpdate:         time.Duration(cc.WaitBeforeUpdateMs) * time.Millisecond,
		WatchIngressWithoutClass: cc.WatchIngressWithoutClass,
	}
	if cc.TCPConfigMap {
		cfg.TCPConfigMapName = tcpConfigMapName
	}
	cfg.TrackOldInstances = cc.TrackOldInstances
	if cc.Acme {
		cfg.AcmeServer = true
		cfg.AcmeCheckPeriod = 24 * time.Hour
		cfg.AcmeFailInitialDuration = 5 * time.Minute
		cfg.AcmeFailMaxDuration = 8 * time.Hour
		cfg.AcmeSecretKeyName = podNamespace + "/acme-private-key"
		cfg.AcmeTokenConfigMapName = podNamespace + "/acme-validation-tokens"
		cfg.AcmeTrackTLSAnn = cc.AcmeTrackTLSAnn
	}
	return cfg
}

// Controller is one running controller generation (L2).
type Controller struct {
	run    *Run
	prefix string
	cfg    *ctrlconfig.Config
	svc    *services.Services
	rec    *reconciler.IngressReconciler
	mgr    *simManager
	cancel context.CancelFunc
	ctx    context.Context
}

// StartController builds and starts a controller generation inside the bubble.
func (r *Run) StartController() (*Controller, error) {
	ctx, cancel := context.WithCancel(context.Background())
	ctx = logr.NewContext(ctx, r.logger)
	cfg := r.Cfg.Ctl.build(r.prefix, r.scheme, ctx)
	c := &Controller{run: r, prefix: r.prefix, cfg: cfg, cancel: cancel, ctx: ctx}
	c.mgr = &simManager{k: r.kube, log: r.logger}
	cli := r.kube.Client()
	c.svc = &services.Services{Client: cli, Config: cfg}
	// Services.setup writes the fake certificate: seam calls, not faults
	r.rt.Quiet = true
	err := c.svc.SetupWithManager(ctx, c.mgr)
	r.rt.Quiet = false
	if err != nil {
		cancel()
		return nil, fmt.Errorf("services setup: %w", err)
	}
	c.rec = &reconciler.IngressReconciler{Client: cli, Config: cfg, Services: c.svc}
	if err := c.rec.SetupWithManager(ctx, c.mgr); err != nil {
		cancel()
		return nil, fmt.Errorf("reconciler setup: %w", err)
	}
	if r.Cfg.Ctl.Acme {
		r.acmeInstall(c)
	}
	reconciler.SimReconcileHook = func(fullsync bool) { r.curFullItem = fullsync }
	reconciler.SimBatchTakenHook = func(objs []string) {
		r.bmu.Lock()
		defer r.bmu.Unlock()
		for _, o := range objs {
			r.batchTaken[o]++
			delete(r.notifyPending, o)
		}
	}
	services.SimBatchDeliveredHook = func(objs []string) {
		r.bmu.Lock()
		defer r.bmu.Unlock()
		if r.rt.Quiet {
			return // a fresh pipeline of an oracle, not the controller under test
		}
		for _, o := range objs {
			r.batchDelivered[o]++
		}
	}
	for _, rn := range c.mgr.runnables {
		rn := rn
		if strings.Contains(fmt.Sprintf("%T", rn), "svcAcmeServer") {
			continue // the challenge responder listens on a real unix socket: not started
		}
		go func() {
			_ = rn.Start(ctx)
		}()
	}
	return c, nil
}

// Stop cancels the generation's context (queues shut down, workers leave).
func (c *Controller) Stop() { c.cancel() }

// Oracle is a fresh controller pipeline (L1) reading the same informer stores.
type Oracle struct {
	svc    *services.Services
	prefix string
	cancel context.CancelFunc
}

// FreshSync builds a new Services with its own file-system prefix and performs
// its first (full) synchronisation, fault-free and in sorted map order.
// It returns the prefix under which its files were written.
func (r *Run) FreshSync(prefix string) (string, error) {
	ctx, cancel := context.WithCancel(context.Background())
	defer cancel()
	ctx = logr.NewContext(ctx, logr.Discard())
	cc := r.Cfg.Ctl
	cc.ReloadIntervalMs = 1000 // reload is only enqueued, never run: the oracle has no HAProxy
	cfg := cc.build(prefix, r.scheme, ctx)
	saveQuiet := r.rt.Quiet
	r.rt.Quiet = true
	defer func() { r.rt.Quiet = saveQuiet }()
	svc := &services.Services{Client: r.kube.Client(), Config: cfg}
	mgr := &simManager{k: r.kube, log: logr.Discard()}
	if err := svc.SetupWithManager(ctx, mgr); err != nil {
		return "", err
	}
	changed := &convtypes.ChangedObjects{Links: convtypes.TrackingLinks{}, NeedFullSync: true}
	if cm := r.kube.ks(KConfigMap).store[globalConfigMapName]; cm != nil {
		changed.GlobalConfigMapDataNew = cmData(cm)
	}
	if cfg.TCPConfigMapName != "" {
		if cm := r.kube.ks(KConfigMap).store[tcpConfigMapName]; cm != nil {
			changed.TCPConfigMapDataNew = cmData(cm)
		}
	}
	if err := svc.ReconcileIngress(ctx, changed); err != nil {
		return "", fmt.Errorf("oracle reconcile: %w", err)
	}
	if r.freshTwice {
		// a second full sync of the same state: what a controller that has been running for a while writes
		// (state that one sync leaves for the next, the cross-namespace permissions among it)
		again := &convtypes.ChangedObjects{Links: convtypes.TrackingLinks{}, NeedFullSync: true, GlobalConfigMapDataCur: changed.GlobalConfigMapDataNew, TCPConfigMapDataCur: changed.TCPConfigMapDataNew}
		if err := svc.ReconcileIngress(ctx, again); err != nil {
			return "", fmt.Errorf("oracle reconcile (second sync): %w", err)
		}
	}
	return prefix, nil
}

// resetSimHooks clears every package-level seam the injected export files declare.
func resetSimHooks() {
	reconciler.SimReconcileHook = nil
	reconciler.SimBatchTakenHook = nil
	services.SimReset()
	acme.SimClientFactory = nil
}
