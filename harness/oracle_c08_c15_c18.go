package hapsim

// C08 — only Ingresses classified for this controller are configured.
// C15 — each TLS host is served with the certificate its Ingress declares.
// C18 — external authentication fails closed.
//
// All three evaluate the written files (and the running SimHAProxy) with the
// request / SNI evaluator and compare with small reference models written from
// the documentation.

import (
	"fmt"
	"net"
	"sort"
	"strings"

	api "k8s.io/api/core/v1"
	networking "k8s.io/api/networking/v1"
)

// ---------------------------------------------------------------------------
// C08

// checkClassSelection: (1) the facade's IsValidIngress equals the documented
// predicate for every ingress; (2) an ingress contributes its (unique) host iff
// it is selected; (3) an unselected ingress contributes no certificate.
func (r *Run) checkClassSelection() {
	disk := r.diskConfig()
	if disk == nil {
		return
	}
	r.probe("model_compared")
	val := r.ctl.svc.GetIsValidResource()
	saveQuiet := r.rt.Quiet
	r.rt.Quiet = true
	defer func() { r.rt.Quiet = saveQuiet }()
	for _, key := range r.kube.TruthKeys(KIngress) {
		ing := r.kube.Truth(KIngress, key).(*networking.Ingress)
		want := r.refSelected(ing)
		if got := val.IsValidIngress(ing.DeepCopy()); got != want {
			r.violate(&Violation{Property: "C08", Oracle: "predicate", Class: fmt.Sprintf("is-valid-ingress-%v-expected-%v", got, want),
				Witness: fmt.Sprintf("IsValidIngress(%s)=%v, the documented class rules say %v (%s)", key, got, want, r.classFacts(ing))})
			return
		}
		r.probe("class_predicate_checked")
		// contribution: every rule of this ingress uses the ingress' own host
		for _, rule := range ing.Spec.Rules {
			if rule.HTTP == nil || rule.Host == "" {
				continue
			}
			for _, p := range rule.HTTP.Paths {
				svc, port, ok := backendPort(&p.Backend)
				if !ok {
					continue
				}
				if _, sp := r.findServicePort(ing.Namespace, svc, port); sp == nil {
					continue
				}
				path := p.Path
				if path == "" {
					path = "/"
				}
				out := disk.Eval(Req{Host: rule.Host, Path: path}, nil)
				// the host is unique to this ingress: a hit in the host maps is its contribution
				// (the default host / default backend of another ingress may still answer)
				contributed := out.HostMatched
				if contributed != want {
					cls := "unselected-ingress-configured"
					if want {
						cls = "selected-ingress-missing"
					}
					r.violate(&Violation{Property: "C08", Oracle: "contribution", Class: cls,
						Witness: fmt.Sprintf("ingress %s is selected=%v (%s) but http://%s%s evaluates to: %s", key, want, r.classFacts(ing), rule.Host, path, out)})
					return
				}
				r.probe("class_contribution_checked")
			}
		}
		if !want {
			for _, t := range ing.Spec.TLS {
				for _, h := range t.Hosts {
					if !strings.HasPrefix(h, "h") || t.SecretName == "" {
						continue
					}
					if id := disk.CertForSNI(h, nil); id != r.refDefaultCert() && r.hostOnlyOf(h, key) {
						r.violate(&Violation{Property: "C08", Oracle: "contribution", Class: "unselected-ingress-certificate",
							Witness: fmt.Sprintf("unselected ingress %s declares tls for %s and SNI %s is served %s instead of the default certificate", key, h, h, id)})
						return
					}
				}
			}
		}
	}
}

// hostOnlyOf reports whether no other ingress declares the host.
func (r *Run) hostOnlyOf(host, key string) bool {
	for _, k := range r.kube.TruthKeys(KIngress) {
		if k == key {
			continue
		}
		ing := r.kube.Truth(KIngress, k).(*networking.Ingress)
		for _, rule := range ing.Spec.Rules {
			if rule.Host == host {
				return false
			}
		}
		for _, t := range ing.Spec.TLS {
			for _, h := range t.Hosts {
				if h == host {
					return false
				}
			}
		}
	}
	return true
}

func (r *Run) classFacts(ing *networking.Ingress) string {
	ann, has := ing.Annotations["kubernetes.io/ingress.class"]
	cls := "<none>"
	ctrl := ""
	if ing.Spec.IngressClassName != nil {
		cls = *ing.Spec.IngressClassName
		if ic, _ := r.kube.Truth(KIngressClass, cls).(*networking.IngressClass); ic != nil {
			ctrl = ic.Spec.Controller
		} else {
			ctrl = "<class does not exist>"
		}
	}
	a := "<none>"
	if has {
		a = ann
	}
	return fmt.Sprintf("annotation=%s ingressClassName=%s controller=%s watch-without-class=%v class-precedence=%v", a, cls, ctrl,
		r.Cfg.Ctl.WatchIngressWithoutClass, r.Cfg.Ctl.IngressClassPrecedence)
}

// ---------------------------------------------------------------------------
// C15

func (r *Run) secretCertID(ns, name string) (string, bool) {
	s, _ := r.kube.Truth(KSecret, ns+"/"+name).(*api.Secret)
	if s == nil {
		return "", false
	}
	crt, key := s.Data[api.TLSCertKey], s.Data[api.TLSPrivateKeyKey]
	if len(crt) == 0 || len(key) == 0 || !validPEMPair(append(append([]byte{}, crt...), key...)) {
		return "", false
	}
	return "cert:" + certIdentity(crt), true
}

func (r *Run) refDefaultCert() string {
	if d := r.Cfg.Ctl.DefaultSSLCertificate; d != "" {
		ns, name, _ := strings.Cut(d, "/")
		if id, ok := r.secretCertID(ns, name); ok {
			return id
		}
	}
	return "cert:fake-default"
}

// refTLS: host -> expected certificate identity (first-created ingress that
// declares the host in spec.tls decides; an unusable secret means default).
func (r *Run) refTLS() map[string]string {
	out := map[string]string{}
	def := r.refDefaultCert()
	crossCrt := r.Cfg.Ctl.AllowCrossNamespace || r.globalString("cross-namespace-secrets-crt") == "allow"
	for _, ing := range r.selectedIngresses() {
		for _, t := range ing.Spec.TLS {
			for _, h := range t.Hosts {
				if _, done := out[h]; done {
					continue
				}
				id := def
				if t.SecretName != "" {
					ns, name := ing.Namespace, t.SecretName
					if i := strings.IndexByte(name, '/'); i >= 0 {
						ns, name = name[:i], name[i+1:]
					}
					if ns == ing.Namespace || crossCrt {
						if sid, ok := r.secretCertID(ns, name); ok {
							id = sid
						}
					}
				}
				out[h] = id
			}
		}
	}
	return out
}

func (r *Run) globalString(key string) string {
	cm, _ := r.kube.Truth(KConfigMap, globalConfigMapName).(*api.ConfigMap)
	if cm == nil {
		return ""
	}
	return cm.Data[key]
}

func (r *Run) checkTLSCerts() {
	disk := r.diskConfig()
	if disk == nil {
		return
	}
	r.probe("model_compared")
	ref := r.refTLS()
	def := r.refDefaultCert()
	snis := map[string]string{"unknown.host": def}
	for h, id := range ref {
		s := h
		if strings.HasPrefix(h, "*.") {
			s = "sub" + h[1:]
		}
		snis[s] = id
	}
	// hosts with rules but without tls entries get the default certificate
	for _, ing := range r.selectedIngresses() {
		for _, rule := range ing.Spec.Rules {
			if rule.Host != "" && !strings.HasPrefix(rule.Host, "*.") {
				if _, ok := snis[rule.Host]; !ok {
					snis[rule.Host] = def
				}
			}
		}
	}
	views := []struct {
		name string
		cfg  *HAConfig
		opt  *NFOptions
	}{{"files", disk, nil}}
	if r.ha.Loaded != nil && !r.reloadPending {
		views = append(views, struct {
			name string
			cfg  *HAConfig
			opt  *NFOptions
		}{"running", r.ha.Loaded, &NFOptions{Certs: r.ha.Certs, RuntimeView: true}})
	}
	for _, v := range views {
		for _, sni := range sortedKeys(snis) {
			got := v.cfg.CertForSNI(sni, v.opt)
			r.probe("sni_evaluated")
			if got != snis[sni] {
				cls := "wrong-certificate"
				if snis[sni] == def {
					cls = "non-default-certificate-for-host-without-usable-declaration"
				} else if got == def {
					cls = "default-certificate-instead-of-declared"
				}
				r.violate(&Violation{Property: "C15", Oracle: "sni-" + v.name, Class: cls,
					Witness: fmt.Sprintf("SNI %s (%s) is served %s, the first-created ingress declaring the host asks for %s", sni, v.name, got, snis[sni])})
				return
			}
		}
	}
}

// ---------------------------------------------------------------------------
// C18

// checkExtAuth: every path whose ingress declares auth-url or oauth must be
// intercepted by the declared authentication service or denied; never served.
func (r *Run) checkExtAuth() {
	disk := r.diskConfig()
	if disk == nil {
		return
	}
	r.probe("model_compared")
	st := r.buildRef()
	for _, ing := range r.selectedIngresses() {
		ingURL := ing.Annotations[annPrefix+"auth-url"]
		ingOAuth := ing.Annotations[annPrefix+"oauth"]
		ingKey := ing.Namespace + "/" + ing.Name
		for _, rule := range ing.Spec.Rules {
			if rule.HTTP == nil || rule.Host == "" || strings.HasPrefix(rule.Host, "*.") {
				continue
			}
			for _, p := range rule.HTTP.Paths {
				svc, port, ok := backendPort(&p.Backend)
				if !ok {
					continue
				}
				svcObj, sp := r.findServicePort(ing.Namespace, svc, port)
				if sp == nil {
					continue
				}
				// the annotations of the Service have precedence over the ones of the Ingress, key by key
				url, oauth := ingURL, ingOAuth
				twoURLs := false
				if v, ok := svcObj.Annotations[annPrefix+"auth-url"]; ok {
					// (the host, hence the frontend placement, only sees the one of the Ingress: with two distinct
					// declarations either service authenticates the path, and the target is not judged)
					twoURLs = ingURL != "" && ingURL != v
					url = v
					r.probe("auth_declared_on_service")
				}
				if v, ok := svcObj.Annotations[annPrefix+"oauth"]; ok {
					oauth = v
				}
				if url == "" && oauth == "" {
					continue
				}
				path := p.Path
				if path == "" {
					path = "/"
				}
				if !r.ownsPath(ing, rule.Host, path) {
					continue
				}
				probePaths := []string{path}
				if p.PathType == nil || *p.PathType != networking.PathTypeExact {
					pt := strings.ToLower(ing.Annotations[annPrefix+"path-type"])
					if pt != "exact" && pt != "regex" {
						// begin and prefix declarations cover what lies below them
						probePaths = append(probePaths, strings.TrimSuffix(path, "/")+"/zz")
					}
				}
				for _, pp := range probePaths {
					if url == "" && oauth != "" {
						// the endpoints of the oauth2 proxy itself (sign-in, callback) are not authenticated, by
						// design; an empty prefix exempts nothing (it would exempt every path)
						prefix := "/oauth2"
						if v, ok := ing.Annotations[annPrefix+"oauth-uri-prefix"]; ok {
							prefix = v
						}
						if prefix = strings.TrimRight(prefix, "/"); prefix != "" && strings.HasPrefix(pp, prefix+"/") {
							r.probe("oauth_proxy_endpoint_not_judged")
							continue
						}
					}
					for _, https := range []bool{false, true} {
						req := Req{HTTPS: https, Host: rule.Host, Path: pp}
						// the request belongs to this declaration only when the reference router
						// hands it to one of this ingress' rules
						exp := st.expect(req)
						mine := exp.kind == "backend" && len(exp.accept) > 0
						for _, a := range exp.accept {
							if a.ing != ingKey {
								mine = false
							}
						}
						if !mine {
							continue
						}
						out := disk.Eval(req, nil)
						r.probe("auth_requests_evaluated")
						// the same request through a server-alias of the host reaches the same rule
						// (judged when the alias names one host only: the ingress declares a single host that nobody shares)
						if alias := ing.Annotations[annPrefix+"server-alias"]; alias != "" && !strings.Contains(alias, ",") && r.hostOnlyOf(rule.Host, ingKey) && singleHost(ing) && r.aliasOnlyOf(alias, ingKey) {
							areq := Req{HTTPS: https, Host: alias, Path: pp}
							aout := disk.Eval(areq, nil)
							r.probe("auth_alias_requests")
							if aout.Kind == "backend" && r.backendOfIngressPath(ing, svc, port, aout.Backend) {
								r.violate(&Violation{Property: "C18", Oracle: "fail-closed", Class: "protected-path-served-unauthenticated-through-alias",
									Witness: fmt.Sprintf("%s declares external authentication (auth-url=%q oauth=%q) and server-alias %s: %s is forwarded without it: %s (the same request for %s: %s)", ingKey, url, oauth, alias, areq, aout, rule.Host, out)})
								return
							}
						}
						switch out.Kind {
						case "deny", "auth", "redirect": // (oauth answers a failed authentication with a redirect to the sign-in page)
							if out.Kind == "deny" && len(out.Intercepts) == 0 {
								r.probe("auth_denied_outright")
							}
							if len(out.Intercepts) > 0 {
								r.probe("auth_intercepted")
							}
							// (a request that fell to the default host is resolved again inside the backend, where
							// it may legitimately match the host rule of another ingress: no target check there)
							// (with declarations on Services two rules of one ingress can tie for a request and carry
							// different URLs: the target is judged when the request ended in this path's backend)
							if len(out.Intercepts) > 0 && url != "" && exp.accept[0].host != "" && !twoURLs &&
								(out.Backend == "" || r.backendOfIngressPath(ing, svc, port, out.Backend)) {
								// auth-url has precedence over oauth
								r.probe("auth_target_checked")
								if strings.HasPrefix(url, "svc") {
									r.probe("auth_target_checked_svc_" + ing.Namespace)
								}
								if msg := r.checkInterceptTarget(disk, ing, url, out); msg != "" {
									r.violate(&Violation{Property: "C18", Oracle: "intercept-target", Class: "wrong-auth-service",
										Witness: fmt.Sprintf("%s (auth-url %s): %s; %s", req, url, msg, out)})
									return
								}
							}
							if len(out.Intercepts) > 0 && url == "" && oauth != "" && exp.accept[0].host != "" &&
								(out.Backend == "" || r.backendOfIngressPath(ing, svc, port, out.Backend)) {
								// oauth: the authentication request goes to a backend that publishes the oauth2 prefix
								// in the namespace of the declaration (any of them, if several do)
								if msg := r.checkOAuthTarget(disk, ing, out); msg != "" {
									r.violate(&Violation{Property: "C18", Oracle: "intercept-target", Class: "wrong-auth-service",
										Witness: fmt.Sprintf("%s (oauth %s of %s): %s; %s", req, oauth, ingKey, msg, out)})
									return
								}
							}
						case "backend":
							if out.Backend != "" && !r.backendOfIngressPath(ing, svc, port, out.Backend) {
								continue // routed elsewhere: a routing matter (C03), not an authentication one
							}
							if exp.accept[0].host == "" && len(bestRules(st.rules, strings.ToLower(strings.Split(req.Host, ":")[0]), req.Path)) > 0 {
								// the request fell to the default host (https for a host without TLS) and is resolved again
								// inside the backend, where a rule of its real host matches: that rule's owner decides
								continue
							}
							r.violate(&Violation{Property: "C18", Oracle: "fail-closed", Class: "protected-path-served-unauthenticated",
								Witness: fmt.Sprintf("%s declares external authentication (auth-url=%q oauth=%q) but %s is forwarded without it: %s", ingKey, url, oauth, req, out)})
							return
						}
					}
				}
			}
		}
	}
}

func (r *Run) noDenyReason(ing *networking.Ingress) bool {
	for k := range ing.Annotations {
		for _, d := range []string{"allowlist-source-range", "whitelist-source-range", "denylist-source-range", "limit-", "auth-", "oauth", "waf", "config-backend"} {
			if strings.Contains(k, d) {
				return false
			}
		}
	}
	return true
}

// ownsPath: the ingress is the first-created declarer of host+path (any type).
func (r *Run) ownsPath(ing *networking.Ingress, host, path string) bool {
	for _, other := range r.selectedIngresses() {
		if other.Namespace == ing.Namespace && other.Name == ing.Name {
			return true
		}
		for _, rule := range other.Spec.Rules {
			if rule.HTTP == nil || rule.Host != host {
				continue
			}
			for _, p := range rule.HTTP.Paths {
				pp := p.Path
				if pp == "" {
					pp = "/"
				}
				if strings.HasPrefix(path, strings.TrimSuffix(pp, "/")) || strings.HasPrefix(pp, strings.TrimSuffix(path, "/")) {
					return false // another, older ingress has a say on this path: not attributable
				}
			}
		}
	}
	return true
}

func (r *Run) backendOfIngressPath(ing *networking.Ingress, svc, port, backend string) bool {
	_, sp := r.findServicePort(ing.Namespace, svc, port)
	if sp == nil {
		return false
	}
	return backend == fmt.Sprintf("%s_%s_%s", ing.Namespace, svc, sp.TargetPort.String())
}

// checkInterceptTarget follows lua.auth-intercept <authbackend> <path> ... to
// the servers that receive the authentication request and compares them with
// the declared auth-url.
func (r *Run) checkInterceptTarget(c *HAConfig, ing *networking.Ingress, url string, out Outcome) string {
	f := strings.Fields(out.Intercepts[len(out.Intercepts)-1])
	if len(f) < 2 {
		return "malformed auth-intercept call"
	}
	authBackend, authPath := f[0], f[1]
	var wantAddrs []string
	wantPath := "/"
	proto, rest, _ := strings.Cut(url, "://")
	hostport, p, hasPath := strings.Cut(rest, "/")
	if hasPath {
		wantPath = "/" + p
	}
	switch proto {
	case "http", "https":
		host, port, _ := strings.Cut(hostport, ":")
		if port == "" {
			port = map[string]string{"http": "80", "https": "443"}[proto]
		}
		if net.ParseIP(host) != nil {
			wantAddrs = []string{host + ":" + port}
		} else {
			for _, ip := range r.dns[host] {
				wantAddrs = append(wantAddrs, ip+":"+port)
			}
		}
	case "svc", "service":
		// documented format: svc://[namespace/]servicename:port[/path]
		// (the first segment is a namespace when the second one carries the port)
		segs := strings.SplitN(rest, "/", 3)
		ns := ing.Namespace
		nameport := segs[0]
		pathSegs := segs[1:]
		if len(segs) >= 2 && !strings.Contains(segs[0], ":") && strings.Contains(segs[1], ":") {
			ns, nameport, pathSegs = segs[0], segs[1], segs[2:]
		}
		name, port, _ := strings.Cut(nameport, ":")
		wantPath = "/"
		if len(pathSegs) > 0 {
			wantPath = "/" + strings.Join(pathSegs, "/")
		}
		// auth-url names the backend by <service>:<port as written>; the port may also be the target port
		if s, sp := r.findServicePort(ns, name, port); s != nil && sp == nil {
			for i := range s.Spec.Ports {
				if s.Spec.Ports[i].TargetPort.String() == port {
					port = fmt.Sprint(s.Spec.Ports[i].Port)
				}
			}
		}
		ready, _ := r.expectedServers(ns, name, port)
		wantAddrs = ready
	}
	sort.Strings(wantAddrs)
	if authPath != wantPath {
		return fmt.Sprintf("the intercept calls path %s, the declaration says %s", authPath, wantPath)
	}
	// _auth_<port> -> 127.0.0.1:<port> -> auth proxy frontend -> real auth backend
	be := c.Backends[authBackend]
	if be == nil {
		// auth-request.lua answers 500 for an unknown backend (txn.auth_response_successful stays false) and
		// the deny rule that follows the intercept refuses the request: closed, as the property asks
		r.probe("auth_intercept_dangling_denied")
		return ""
	}
	if len(be.Servers) != 1 {
		return "auth backend " + authBackend + " has no single server"
	}
	port := be.Servers[0].Port
	fs := c.authProxyFrontend()
	if fs == nil {
		fs = c.ByID["frontend _front__auth__local"]
	}
	if fs == nil {
		for _, s := range c.Sections {
			if s.Kind == "frontend" && strings.Contains(s.Name, "auth") {
				fs = s
			}
		}
	}
	if fs == nil {
		return "no auth-proxy frontend"
	}
	idOfPort := map[int]string{}
	nbind := 0
	for _, l := range fs.Lines {
		if l.Tok[0] == "bind" && len(l.Tok) > 1 {
			nbind++
			var bp int
			fmt.Sscanf(l.Tok[1][strings.LastIndexByte(l.Tok[1], ':')+1:], "%d", &bp)
			for i, w := range l.Tok {
				if w == "id" && i+1 < len(l.Tok) {
					idOfPort[bp] = l.Tok[i+1]
				}
			}
			if _, ok := idOfPort[bp]; !ok {
				idOfPort[bp] = ""
			}
		}
	}
	sockID, bound := idOfPort[port]
	if !bound {
		return fmt.Sprintf("auth backend %s connects to 127.0.0.1:%d which the auth-proxy frontend does not bind", authBackend, port)
	}
	target := ""
	for _, l := range fs.Lines {
		if l.Tok[0] == "use_backend" && len(l.Tok) > 1 {
			if nbind == 1 && len(l.Tok) == 2 {
				target = l.Tok[1]
			}
			for i, w := range l.Tok {
				if w == "so_id" && i+1 < len(l.Tok) && l.Tok[i+1] == sockID {
					target = l.Tok[1]
				}
			}
		}
	}
	tb := c.Backends[target]
	if tb == nil {
		return fmt.Sprintf("auth-proxy port %d leads to no backend", port)
	}
	var got []string
	for _, s := range tb.Servers {
		if !s.Disabled {
			got = append(got, fmt.Sprintf("%s:%d", s.Addr, s.Port))
		}
	}
	sort.Strings(got)
	if strings.Join(got, ",") != strings.Join(wantAddrs, ",") {
		return fmt.Sprintf("the authentication request goes to %v (backend %s), the declaration resolves to %v", got, target, wantAddrs)
	}
	return ""
}

func (r *Run) hostHasAuth(host string) bool {
	for _, ing := range r.selectedIngresses() {
		if ing.Annotations[annPrefix+"auth-url"] == "" && ing.Annotations[annPrefix+"oauth"] == "" {
			continue
		}
		for _, rule := range ing.Spec.Rules {
			if rule.Host == host {
				return true
			}
		}
		for _, t := range ing.Spec.TLS {
			for _, h := range t.Hosts {
				if h == host {
					return true
				}
			}
		}
	}
	return false
}

// singleHost: every rule and tls entry of the ingress names one and the same host.
func singleHost(ing *networking.Ingress) bool {
	hosts := map[string]bool{}
	for _, r := range ing.Spec.Rules {
		hosts[r.Host] = true
	}
	for _, t := range ing.Spec.TLS {
		for _, h := range t.Hosts {
			hosts[h] = true
		}
	}
	return len(hosts) == 1 && ing.Spec.DefaultBackend == nil
}

// aliasOnlyOf: no other ingress claims the name, as alias or as host.
func (r *Run) aliasOnlyOf(alias, key string) bool {
	if !r.hostOnlyOf(alias, key) {
		return false
	}
	for _, k := range r.kube.TruthKeys(KIngress) {
		if k == key {
			continue
		}
		ing := r.kube.Truth(KIngress, k).(*networking.Ingress)
		if ing.Annotations[annPrefix+"server-alias"] == alias {
			return false
		}
	}
	return true
}

// checkOAuthTarget: lua.auth-intercept <backend> /oauth2/auth ...: the backend is one that a selected ingress of the
// same namespace publishes under the oauth2 prefix. A name that no backend carries is a denial (auth-request.lua
// answers 500), as for auth-url.
func (r *Run) checkOAuthTarget(c *HAConfig, ing *networking.Ingress, out Outcome) string {
	f := strings.Fields(out.Intercepts[len(out.Intercepts)-1])
	if len(f) < 2 {
		return "malformed auth-intercept call"
	}
	target := f[0]
	if c.Backends[target] == nil {
		r.probe("auth_intercept_dangling_denied")
		return ""
	}
	prefix := strings.TrimRight(ing.Annotations[annPrefix+"oauth-uri-prefix"], "/")
	if prefix == "" {
		prefix = "/oauth2"
	}
	r.probe("oauth_target_checked")
	var published []string
	for _, other := range r.selectedIngresses() {
		if other.Namespace != ing.Namespace {
			continue
		}
		for _, rule := range other.Spec.Rules {
			if rule.HTTP == nil {
				continue
			}
			for _, p := range rule.HTTP.Paths {
				if strings.TrimRight(p.Path, "/") != prefix {
					continue
				}
				svc, port, ok := backendPort(&p.Backend)
				if !ok {
					continue
				}
				published = append(published, other.Namespace+"/"+other.Name+":"+svc)
				if r.backendOfIngressPath(other, svc, port, target) {
					return ""
				}
			}
		}
	}
	return fmt.Sprintf("the authentication request goes to backend %s, the ingresses of namespace %s publish %s on %v", target, ing.Namespace, prefix, published)
}
