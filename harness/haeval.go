package hapsim

// Evaluation of HAProxy map lookups with HAProxy's matching semantics. Used by
// the normal form (a run of lookups of one variable is replaced by its decision
// table over a probe set, so that equivalent file layouts compare equal) and by
// the request evaluator.

import (
	"fmt"
	"regexp"
	"sort"
	"strings"
)

// mapEntry is one line of a map or list file.
type mapEntry struct {
	Key, Value string
}

// matchKey applies one pattern with the method of the map_<m> converter.
//
//	str: exact
//	beg: prefix
//	dir: the pattern is found in the string as a run of whole '/'-delimited components
//	reg: regular expression search
func matchKey(method, pattern, s string) bool {
	switch method {
	case "", "str":
		return pattern == s
	case "beg":
		return strings.HasPrefix(s, pattern)
	case "end":
		return strings.HasSuffix(s, pattern)
	case "sub":
		return strings.Contains(s, pattern)
	case "dir":
		p := strings.Trim(pattern, "/")
		if p == "" {
			return true
		}
		for i := 0; i+len(p) <= len(s); i++ {
			if !strings.HasPrefix(s[i:], p) {
				continue
			}
			okStart := i == 0 || s[i-1] == '/'
			end := i + len(p)
			okEnd := end == len(s) || s[end] == '/'
			if okStart && okEnd {
				return true
			}
		}
		return false
	case "reg":
		re, err := regexp.Compile(pattern)
		if err != nil {
			return false
		}
		return re.MatchString(s)
	}
	panic(harnessError("evaluator: unknown match method " + method))
}

// lookupEntries returns the value HAProxy's map_<method> yields for s.
// str: the (unique) equal key; beg: the longest matching prefix; dir and reg:
// the first matching entry in file order.
func lookupEntries(method string, entries []mapEntry, s string) (string, bool) {
	switch method {
	case "beg":
		best := -1
		for i, e := range entries {
			if strings.HasPrefix(s, e.Key) && (best < 0 || len(e.Key) > len(entries[best].Key)) {
				best = i
			}
		}
		if best >= 0 {
			return entries[best].Value, true
		}
		return "", false
	default:
		for _, e := range entries {
			if matchKey(method, e.Key, s) {
				return e.Value, true
			}
		}
		return "", false
	}
}

// lookupStep is one `set-var(V) <sample>[,lower],map_<m>(file) [if cond]` line.
type lookupStep struct {
	Var     string
	Method  string
	Lower   bool
	Entries []mapEntry
	// Cond is the condition besides the implied "V not found yet" guard ("" = none).
	Cond string
	// Input: "base" (host#path), "host", "default" (<default>#path) ...
	Input string
	Raw   string
}

var reLookupLine = regexp.MustCompile(`^(?:http-request|tcp-request content) set-var\(([^)]+)\) (\S+?),(lower,)?map(?:_([a-z]+))?\(<<(.*)>>[,)]\S*(?: (?:if|unless) (.*))?$`)

func parseLookupStep(line string) *lookupStep {
	m := reLookupLine.FindStringSubmatch(line)
	if m == nil {
		return nil
	}
	st := &lookupStep{Var: m[1], Lower: m[3] != "", Method: m[4], Raw: line}
	if st.Method == "" {
		st.Method = "str"
	}
	sample := m[2]
	switch {
	case strings.Contains(sample, "str(<default>"):
		st.Input = "default"
	case strings.Contains(sample, "var(req.base)"):
		st.Input = "base"
	case strings.Contains(sample, "var(req.host)"):
		st.Input = "host"
	default:
		st.Input = sample
	}
	if strings.Contains(line, " unless ") {
		st.Cond = "unless " + m[6]
	} else {
		st.Cond = m[6]
	}
	guard := "!{ var(" + st.Var + ") -m found }"
	st.Cond = strings.TrimSpace(strings.Replace(st.Cond, guard, "", 1))
	if strings.TrimSpace(m[5]) != "" {
		for _, e := range strings.Split(m[5], " ; ") {
			f := strings.Fields(e)
			if len(f) == 0 {
				continue
			}
			me := mapEntry{Key: f[0]}
			if len(f) > 1 {
				me.Value = strings.Join(f[1:], " ")
			}
			st.Entries = append(st.Entries, me)
		}
	}
	return st
}

// sampleHost turns a hostname key (possibly a regex built by the controller for
// a wildcard or regex hostname) into a concrete host name that matches it.
func sampleHost(h string) string {
	if !strings.ContainsAny(h, `^\[$(`) {
		return h
	}
	s := strings.TrimPrefix(h, "^")
	s = strings.TrimSuffix(s, "$")
	s = strings.ReplaceAll(s, `[^.]+`, "sub")
	s = strings.ReplaceAll(s, `[^/]*`, "")
	s = strings.ReplaceAll(s, `[a-z]+`, "abc")
	s = strings.ReplaceAll(s, `\.`, ".")
	return s
}

func samplePath(p string) string {
	s := strings.TrimPrefix(p, "^")
	s = strings.TrimSuffix(s, "$")
	s = strings.ReplaceAll(s, "(/.*)?", "")
	s = strings.ReplaceAll(s, `\.`, ".")
	return s
}

// probesFor derives the probe inputs of a run of lookups: every host of any key
// crossed with every path of any key and its neighbours.
func probesFor(steps []*lookupStep) (hosts, paths []string) {
	hs, ps := map[string]bool{}, map[string]bool{"/": true, "/zz": true}
	for _, st := range steps {
		for _, e := range st.Entries {
			k := e.Key
			h, p := k, ""
			if i := strings.IndexByte(k, '#'); i >= 0 {
				h, p = k[:i], k[i+1:]
			} else if i := strings.IndexByte(k, '/'); i >= 0 && st.Input != "host" {
				h, p = k[:i], k[i:]
			}
			hs[sampleHost(h)] = true
			if p != "" {
				sp := samplePath(p)
				for _, v := range []string{sp, sp + "/", strings.TrimSuffix(sp, "/"), sp + "/zz", sp + "zz", strings.ToUpper(sp), strings.ToLower(sp)} {
					if v != "" {
						ps[v] = true
					}
				}
			}
		}
	}
	hs["unknown.host"] = true
	return sortedKeys(hs), sortedKeys(ps)
}

// evalRun evaluates the run for one input under a set of satisfied conditions.
func evalRun(steps []*lookupStep, host, path string, sat map[string]bool) string {
	for _, st := range steps {
		if st.Cond != "" && !sat[st.Cond] {
			continue
		}
		var in string
		switch st.Input {
		case "base":
			in = host + "#" + path
		case "default":
			in = "<default>#" + path
		case "host":
			in = host
		default:
			in = host + "#" + path
		}
		if st.Lower {
			in = strings.ToLower(in)
		}
		if v, ok := lookupEntries(st.Method, st.Entries, in); ok {
			return v
		}
	}
	return ""
}

// decisionTable renders a run of lookups of one variable as the list of
// probe -> value pairs (only hits), under: no condition satisfied, and each
// single condition satisfied.
func decisionTable(steps []*lookupStep) []string {
	hosts, paths := probesFor(steps)
	conds := map[string]bool{}
	for _, st := range steps {
		if st.Cond != "" {
			conds[st.Cond] = true
		}
	}
	ctxs := []string{""}
	ctxs = append(ctxs, sortedKeys(conds)...)
	var out []string
	hostOnly := true
	for _, st := range steps {
		if st.Input != "host" {
			hostOnly = false
		}
	}
	for _, ctx := range ctxs {
		sat := map[string]bool{}
		if ctx != "" {
			sat[ctx] = true
		}
		for _, h := range hosts {
			ps := paths
			if hostOnly {
				ps = []string{"/"}
			}
			for _, p := range ps {
				if v := evalRun(steps, h, p, sat); v != "" {
					c := ""
					if ctx != "" {
						c = " when " + ctx
					}
					if hostOnly {
						out = append(out, fmt.Sprintf("%s%s => %s", h, c, v))
					} else {
						out = append(out, fmt.Sprintf("%s%s%s => %s", h, p, c, v))
					}
				}
			}
		}
	}
	sort.Strings(out)
	return out
}
