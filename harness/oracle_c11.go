package hapsim

// C11 — no needless reloads.
//
// (a) profile quiet-renotify: spurious re-notifications and content-neutral
//     updates; oracle NoReload (exec.go).
// (b) profile quiet-capacity: dynamic-scaling on, endpoint churn only; a
//     capacity model reads the slot count of each backend from the
//     configuration SimHAProxy last loaded. A reconcile whose backends all fit
//     in the loaded slots must not reload, and every loaded configuration must
//     give each backend >= slots-min-free empty slots and a slot count that is a
//     multiple of backend-server-slots-increment. The three values come from
//     the generated global ConfigMap, never from the implementation.

import (
	"fmt"
	"math/rand/v2"
	"strconv"
	"strings"

	api "k8s.io/api/core/v1"
)

func (r *Run) globalInt(key string, def int) int {
	cm, _ := r.kube.Truth(KConfigMap, globalConfigMapName).(*api.ConfigMap)
	if cm == nil {
		return def
	}
	if v, ok := cm.Data[key]; ok {
		n, err := strconv.Atoi(v)
		if err == nil {
			return n
		}
	}
	return def
}

func (r *Run) globalBool(key string, def bool) bool {
	cm, _ := r.kube.Truth(KConfigMap, globalConfigMapName).(*api.ConfigMap)
	if cm == nil {
		return def
	}
	if v, ok := cm.Data[key]; ok {
		return v == "true"
	}
	return def
}

func isUserBackend(name string) bool {
	return !strings.HasPrefix(name, "_") && strings.Count(name, "_") >= 2
}

// checkSlotsImpl runs after every (re)load.
func (r *Run) checkSlotsImpl() {
	if !r.globalBool("dynamic-scaling", true) {
		return
	}
	minFree := r.globalInt("slots-min-free", -1)
	incr := r.globalInt("backend-server-slots-increment", -1)
	if minFree < 0 || incr < 1 {
		return // the profile always sets them; nothing to compare with otherwise
	}
	// the values that were in force when this configuration was rendered are the ones of the
	// last reconcile; the capacity profile never changes them after start-up
	for _, name := range r.ha.Loaded.BackendNames() {
		if !isUserBackend(name) {
			continue
		}
		be := r.ha.Loaded.Backends[name]
		total, empty := 0, 0
		for _, s := range be.Servers {
			if s.Template {
				total = -1
				break
			}
			total++
			if s.IsEmptySlot() {
				empty++
			}
		}
		if total < 0 {
			continue
		}
		r.probe("slots_checked")
		if empty < minFree {
			r.violate(&Violation{Property: "C11", Oracle: "slots", Class: "min-free-slots",
				Witness: fmt.Sprintf("loaded backend %s has %d empty slot(s) of %d, slots-min-free is %d", name, empty, total, minFree)})
			return
		}
		if total%incr != 0 {
			r.violate(&Violation{Property: "C11", Oracle: "slots", Class: "slots-increment",
				Witness: fmt.Sprintf("loaded backend %s has %d slots, not a multiple of backend-server-slots-increment %d", name, total, incr)})
			return
		}
	}
}

// neededSlots: number of servers the cluster state asks for a backend.
func (r *Run) neededSlots(backend string) (int, bool) {
	f := strings.Split(backend, "_")
	if len(f) < 3 {
		return 0, false
	}
	ns, svc := f[0], f[1]
	ep, _ := r.kube.Truth(KEndpoints, ns+"/"+svc).(*api.Endpoints)
	if ep == nil {
		return 0, true
	}
	drain := r.globalBool("drain-support", false)
	n := 0
	for _, ss := range ep.Subsets {
		n += len(ss.Addresses)
		if drain {
			n += len(ss.NotReadyAddresses)
		}
	}
	return n, true
}

// checkCapacity runs after every reconcile of the capacity profile (after start-up).
func (r *Run) checkCapacity() {
	if r.ha.Loaded == nil || r.startupReloads == 0 {
		return
	}
	reloaded := r.cur.reloadedSync || r.cur.reloadEnq
	if r.cur.failed || r.cur.faults > 0 {
		return
	}
	owed := r.reloadOwed
	if reloaded {
		r.reloadOwed = false
	}
	if !reloaded || r.reloadPendingBefore || owed {
		// with a reload already pending the running HAProxy lags the files; commands for the
		// slots of the newer files fail and a reload is the documented answer
		return
	}
	// a reload was requested: it is justified only if some backend does not fit
	for _, name := range r.capLoaded.BackendNames() {
		if !isUserBackend(name) {
			continue
		}
		slots := 0
		for _, s := range r.capLoaded.Backends[name].Servers {
			if !s.Template {
				slots++
			}
		}
		need, ok := r.neededSlots(name)
		if ok && need > slots {
			r.probe("capacity_reload_justified")
			return
		}
	}
	r.violate(&Violation{Property: "C11", Oracle: "capacity", Class: "reload-within-capacity",
		Witness: fmt.Sprintf("reconcile #%d reloaded although only endpoints changed and every backend fits in the slots of the loaded configuration (%s)", r.reconciles, r.capSummary())})
}

func (r *Run) capSummary() string {
	var out []string
	for _, name := range r.capLoaded.BackendNames() {
		if !isUserBackend(name) {
			continue
		}
		need, _ := r.neededSlots(name)
		out = append(out, fmt.Sprintf("%s: %d slots, %d needed", name, len(r.capLoaded.Backends[name].Servers), need))
	}
	return strings.Join(out, "; ")
}

func init() {
	capGlobals := func(r *rand.Rand) map[string]string {
		return map[string]string{
			"dynamic-scaling":                "true",
			"slots-min-free":                 fmt.Sprint([]int{0, 1, 2, 3, 6}[r.IntN(5)]),
			"backend-server-slots-increment": fmt.Sprint([]int{1, 2, 3, 4}[r.IntN(4)]),
			"backend-server-naming":          []string{"sequence", "ip", "pod"}[r.IntN(3)],
			"drain-support":                  []string{"true", "false"}[r.IntN(2)],
		}
	}
	register(&Profile{Name: "quiet-capacity", Prop: "C11", Weight: 2,
		Oracles: OracleSet{Property: "C11", Capacity: true},
		Build: func(seed uint64, tier string) *RunConfig {
			r := cfgRng(seed)
			mn, mx := tierOps(tier, 10, 30)
			ctl := sampleCtl(r)
			if _, avoid := avoidFlags(); avoid["capacity_sync_reload"] {
				ctl.ReloadIntervalMs = 0
			}
			rc := &RunConfig{Property: "C11", Profile: "quiet-capacity", Seed: seed, Ctl: ctl, MapOrder: r.IntN(2) == 0, Lagfree: true}
			w := map[string]int{"ep_scale": 20, "ep_ready": 8, "ep_replace": 8, "renotify": 3, "advance": 4}
			keys := []string{"affinity", "session-cookie-name", "session-cookie-strategy", "balance-algorithm", "maxconn-server", "timeout-server", "initial-weight"}
			rc.World, rc.Ops = GenerateRun(seed, GenOptions{Sparse: r.IntN(3) == 0, IngressKeys: keys, ServiceKeys: []string{"maxconn-server"},
				GlobalKeys: []string{"timeout-client"}, InitialGlobal: capGlobals(r), MinOps: mn, MaxOps: mx, QuiesceEvery: 4, KeysPerRun: 4, W: w, NoForeignClass: true})
			return rc
		}})
	// the same with reloads that fail: the retried reload must restore the free slots as any reload does
	register(&Profile{Name: "capacity-reload-faults", Prop: "C11", Weight: 1,
		Oracles: OracleSet{Property: "C11", Capacity: true},
		Build: func(seed uint64, tier string) *RunConfig {
			r := cfgRng(seed)
			mn, mx := tierOps(tier, 10, 30)
			ctl := sampleCtl(r)
			ctl.ReloadIntervalMs = 0
			ctl.ReloadRetryMs = pickInt(r, 2000, 5000)
			rc := &RunConfig{Property: "C11", Profile: "capacity-reload-faults", Seed: seed, Ctl: ctl, MapOrder: r.IntN(2) == 0, Lagfree: true}
			rc.Faults = map[string]int{"haproxy.reload_fail": pickInt(r, 100, 250, 500)}
			rc.MaxFaults = 1 + r.IntN(3)
			w := map[string]int{"ep_scale": 24, "ep_ready": 6, "ep_replace": 8, "renotify": 2, "advance": 6}
			keys := []string{"balance-algorithm", "maxconn-server", "timeout-server", "initial-weight"}
			rc.World, rc.Ops = GenerateRun(seed, GenOptions{Sparse: r.IntN(3) == 0, IngressKeys: keys, ServiceKeys: []string{"maxconn-server"},
				GlobalKeys: []string{"timeout-client"}, InitialGlobal: capGlobals(r), MinOps: mn, MaxOps: mx, QuiesceEvery: 3, KeysPerRun: 3, W: w, NoForeignClass: true})
			return rc
		}})
	// the same with service backed external authentication: the auth proxy is released and taken again by
	// every partial sync that rebuilds its target
	register(&Profile{Name: "quiet-renotify-auth", Prop: "C11", Weight: 1,
		Oracles: OracleSet{Property: "C11", NoReload: true},
		Build: func(seed uint64, tier string) *RunConfig {
			r := cfgRng(seed)
			mn, mx := tierOps(tier, 8, 24)
			ctl := sampleCtl(r)
			rc := &RunConfig{Property: "C11", Profile: "quiet-renotify-auth", Seed: seed, Ctl: ctl, MapOrder: r.IntN(2) == 0, Lagfree: r.IntN(2) == 0, MidSched: r.IntN(2) == 0}
			w := map[string]int{"renotify": 20, "advance": 4, "neutral_update": 12}
			rc.World, rc.Ops = GenerateRun(seed, GenOptions{Sparse: true, IngressKeys: []string{"auth-url", "auth-external-placement", "balance-algorithm"}, ForceIngressKeys: []string{"auth-url"},
				ValueOverrides: map[string][]string{"auth-url": {"svc://s1:8080", "svc://s1:8080/check", "svc://a/s2:8080", "svc://s2:8080", "svc://b/s3:8081", "http://10.9.9.9:8000/auth"}},
				InitialGlobal:  map[string]string{"external-has-lua": "true", "auth-proxy": "_front__auth:14415-14440"}, AnnChance: 1,
				MinOps: mn, MaxOps: mx, QuiesceEvery: 4, KeysPerRun: 3, W: w, NoForeignClass: true})
			return rc
		}})
	// the same with backends that cannot be updated through the socket (dynamic-scaling false), endpoints kept
	// while not ready (drain-support) and a configured endpoint order: a rebuilt backend that equals the former
	// one must not reload (FX-static-backend-sorted-after-compare)
	register(&Profile{Name: "quiet-renotify-static", Prop: "C11", Weight: 1,
		Oracles: OracleSet{Property: "C11", NoReload: true},
		Build: func(seed uint64, tier string) *RunConfig {
			r := cfgRng(seed)
			mn, mx := tierOps(tier, 8, 24)
			ctl := sampleCtl(r)
			ctl.SortEndpointsBy = []string{"ip", "ip", "name"}[r.IntN(3)]
			rc := &RunConfig{Property: "C11", Profile: "quiet-renotify-static", Seed: seed, Ctl: ctl, MapOrder: r.IntN(2) == 0, Lagfree: r.IntN(2) == 0, MidSched: r.IntN(2) == 0}
			w := map[string]int{"renotify": 20, "advance": 4, "neutral_update": 14}
			rc.World, rc.Ops = GenerateRun(seed, GenOptions{Sparse: r.IntN(2) == 0, IngressKeys: []string{"dynamic-scaling", "balance-algorithm", "blue-green-deploy"}, ForceIngressKeys: []string{"dynamic-scaling"},
				ValueOverrides: map[string][]string{"dynamic-scaling": {"false"}}, AnnChance: 1,
				GlobalKeys:     []string{"drain-support"}, InitialGlobal: map[string]string{"drain-support": "true"},
				MinOps:         mn, MaxOps: mx, QuiesceEvery: 4, KeysPerRun: 3, W: w, NoForeignClass: true})
			return rc
		}})
	register(&Profile{Name: "quiet-renotify", Prop: "C11", Weight: 1,
		Oracles: OracleSet{Property: "C11", NoReload: true},
		Build: func(seed uint64, tier string) *RunConfig {
			r := cfgRng(seed)
			mn, mx := tierOps(tier, 8, 30)
			ctl := sampleCtl(r)
			ctl.TCPConfigMap = r.IntN(3) == 0 // (ConfigMap based TCP services are rebuilt by every sync)
			rc := &RunConfig{Property: "C11", Profile: "quiet-renotify", Seed: seed, Ctl: ctl, MapOrder: r.IntN(2) == 0, Lagfree: r.IntN(2) == 0, MidSched: r.IntN(2) == 0}
			w := map[string]int{"renotify": 20, "advance": 4, "neutral_update": 12, "tcpcm_change": 0}
			rc.World, rc.Ops = GenerateRun(seed, GenOptions{Sparse: r.IntN(3) == 0, ExcludeIngressKeys: alwaysExcludedIngressKeys, MinOps: mn, MaxOps: mx, TCPConfigMap: ctl.TCPConfigMap,
				QuiesceEvery: 4, KeysPerRun: pickInt(r, 4, 8), W: w})
			return rc
		}})
}
