package hapsim

func (r *Run) checkSlotsImpl() {}
