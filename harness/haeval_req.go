package hapsim

// Request evaluator: interprets the directive subset that haproxy.tmpl emits
// and answers "what happens to this request" for a loaded configuration
// (optionally with the runtime state of a running SimHAProxy).
//
// Constructs outside the modelled subset are recorded in Outcome.Unknown; the
// profiles that use the evaluator restrict their generators so that none is met
// on a decisive path, and a non-empty Unknown on such a path is harness trouble.

import (
	"fmt"
	"regexp"
	"sort"
	"strconv"
	"strings"
)

// Req is one probe request.
type Req struct {
	HTTPS   bool
	Host    string // Host header as sent (may carry a port, any case)
	Path    string
	Headers map[string]string
	Method  string
	SNI     string // defaults to the lower-cased host without port
}

func (q Req) String() string {
	s := "http://"
	if q.HTTPS {
		s = "https://"
	}
	return s + q.Host + q.Path
}

// Outcome of a request.
type Outcome struct {
	Kind     string   // backend | redirect | deny | auth | service | none
	Backend  string   // backend section that answered (also for deny/auth inside a backend)
	Servers  []string // "ip:port w=N" of servers that can receive traffic, sorted (w=0: draining)
	Detail   string
	Frontend string
	// HostMatched: the frontend's host/path maps yielded a backend (req.backend /
	// req.hostbackend); false when the default host, the default backend or 404 answered.
	HostMatched bool
	// Intercepts lists the lua.auth-intercept calls executed for the request.
	Intercepts []string
	Unknown    []string
}

func (o Outcome) String() string {
	s := o.Kind
	if o.Backend != "" {
		s += " " + o.Backend
	}
	if o.Detail != "" {
		s += " (" + o.Detail + ")"
	}
	if len(o.Servers) > 0 {
		s += " [" + strings.Join(o.Servers, ", ") + "]"
	}
	if len(o.Intercepts) > 0 {
		s += " after auth-intercept " + strings.Join(o.Intercepts, "; ")
	}
	return s
}

type evalCtx struct {
	c    *HAConfig
	opt  *NFOptions
	req  Req
	vars map[string]string
	out  *Outcome
	acls map[string][]string // named acls of the current section: name -> tokens after the name (may repeat: OR)
}

// Eval answers the request.
func (c *HAConfig) Eval(req Req, opt *NFOptions) Outcome {
	if req.Method == "" {
		req.Method = "GET"
	}
	if req.SNI == "" {
		req.SNI = strings.ToLower(strings.Split(req.Host, ":")[0])
	}
	out := Outcome{}
	e := &evalCtx{c: c, opt: opt, req: req, vars: map[string]string{}, out: &out}
	front := "frontend _front_http"
	if req.HTTPS {
		front = "frontend _front_https"
		if c.ByID[front] == nil {
			// ssl-passthrough in place: a tcp frontend inspects the SNI first
			if l := c.ByID["listen _front__tls"]; l != nil {
				out.Frontend = l.Name
				if be, done := e.runTCPFront(l); done {
					e.finishBackend(be)
					return out
				}
			}
			front = "frontend _front_https__local"
		}
	}
	fs := c.ByID[front]
	if fs == nil {
		out.Kind = "none"
		out.Detail = "no " + front
		return out
	}
	out.Frontend = fs.Name
	be, terminal := e.runSection(fs, true)
	out.HostMatched = e.vars["req.backend"] != "" || e.vars["req.hostbackend"] != ""
	if terminal {
		return out
	}
	if be == "" {
		out.Kind = "none"
		out.Detail = "no backend selected"
		return out
	}
	e.finishBackend(be)
	return out
}

func (e *evalCtx) finishBackend(name string) {
	bs := e.c.ByID["backend "+name]
	if bs == nil {
		bs = e.c.ByID["listen "+name]
	}
	if bs == nil {
		e.out.Kind = "none"
		e.out.Detail = "backend " + name + " does not exist"
		return
	}
	e.out.Backend = name
	if _, terminal := e.runSection(bs, false); terminal {
		return
	}
	e.out.Kind = "backend"
	be := e.c.Backends[name]
	if be == nil {
		return
	}
	for _, sv := range be.Servers {
		addr, port, weight, disabled := sv.Addr, sv.Port, sv.Weight, sv.Disabled
		if e.opt != nil && e.opt.Servers != nil {
			if st := e.opt.Servers[name][sv.Name]; st != nil {
				addr, port, weight, disabled = st.Addr, st.Port, st.Weight, st.Maint
				if st.Drain {
					weight = 0
				}
			}
		}
		if disabled {
			continue
		}
		if sv.Template {
			e.out.Servers = append(e.out.Servers, "template "+sv.Addr)
			continue
		}
		e.out.Servers = append(e.out.Servers, fmt.Sprintf("%s:%d w=%d", addr, port, weight))
	}
	sort.Strings(e.out.Servers)
}

// runTCPFront evaluates the tcp-mode TLS frontend used with ssl-passthrough.
func (e *evalCtx) runTCPFront(s *HASection) (string, bool) {
	e.loadACLs(s)
	for _, l := range s.Lines {
		t := l.Tok
		switch {
		case t[0] == "tcp-request" && len(t) > 2 && strings.HasPrefix(t[2], "set-var("):
			e.setVar(t[2:], l)
		case t[0] == "use_backend" && len(t) > 1:
			name, ok := e.expand(t[1])
			if !ok || !e.cond(t[2:]) {
				continue
			}
			if e.c.hasProxy(name) {
				return name, true
			}
		}
	}
	return "", false
}

func (e *evalCtx) loadACLs(s *HASection) {
	e.acls = map[string][]string{}
	for _, l := range s.Lines {
		if l.Tok[0] == "acl" && len(l.Tok) > 2 {
			// several lines with one name are OR-ed: keep them separated by a marker
			if prev, ok := e.acls[l.Tok[1]]; ok {
				e.acls[l.Tok[1]] = append(append(prev, "\x00"), l.Tok[2:]...)
			} else {
				e.acls[l.Tok[1]] = l.Tok[2:]
			}
		}
	}
}

// runSection interprets a frontend (selecting a backend) or a backend (which
// may terminate the request). Returns the selected backend and whether the
// request ended inside the section.
func (e *evalCtx) runSection(s *HASection, isFront bool) (string, bool) {
	e.loadACLs(s)
	for _, l := range s.Lines {
		t := l.Tok
		switch t[0] {
		case "http-request":
			if len(t) < 2 {
				continue
			}
			action := t[1]
			switch {
			case strings.HasPrefix(action, "set-var("):
				e.setVar(t[1:], l)
			case action == "redirect":
				args, cond := splitCond(t[2:])
				if e.cond(cond) {
					e.out.Kind = "redirect"
					e.out.Detail = e.expandAll(strings.Join(args, " "))
					return "", true
				}
			case action == "deny" || action == "tarpit" || action == "reject" || action == "silent-drop":
				_, cond := splitCond(t[2:])
				if e.cond(cond) {
					e.out.Kind = "deny"
					return "", true
				}
			case action == "auth":
				args, cond := splitCond(t[2:])
				if e.cond(cond) {
					e.out.Kind = "auth"
					e.out.Detail = strings.Join(args, " ")
					return "", true
				}
			case action == "use-service":
				args, cond := splitCond(t[2:])
				if e.cond(cond) {
					e.out.Kind = "service"
					e.out.Detail = strings.Join(args, " ")
					return "", true
				}
			case action == "return":
				args, cond := splitCond(t[2:])
				if e.cond(cond) {
					e.out.Kind = "service"
					e.out.Detail = "return " + strings.Join(args, " ")
					return "", true
				}
			case action == "lua.auth-intercept" || action == "lua.auth-request":
				args, cond := splitCond(t[2:])
				if e.cond(cond) {
					e.out.Intercepts = append(e.out.Intercepts, strings.Join(args, " "))
					// the probe carries no credentials: the authentication service refuses
					e.vars["txn.auth_response_successful"] = "0"
				}
			default:
				// header, capture, counters, other lua actions: no effect on where the request goes
			}
		case "redirect":
			args, cond := splitCond(t[1:])
			if e.cond(cond) {
				e.out.Kind = "redirect"
				e.out.Detail = strings.Join(args, " ")
				return "", true
			}
		case "use_backend":
			if !isFront || len(t) < 2 {
				continue
			}
			name, ok := e.expand(t[1])
			var cond []string
			if len(t) > 2 {
				cond = t[2:]
			}
			if !ok || name == "" || !e.cond(cond) {
				continue
			}
			if e.c.hasProxy(name) {
				return name, false
			}
			// a name that resolves to no backend is ignored by HAProxy
		case "default_backend":
			if isFront && len(t) > 1 {
				return t[1], false
			}
		case "tcp-request":
			if len(t) > 2 && t[1] == "content" {
				if strings.HasPrefix(t[2], "set-var(") {
					e.setVar(t[2:], l)
				} else if t[2] == "reject" {
					_, cond := splitCond(t[3:])
					if e.cond(cond) {
						e.out.Kind = "deny"
						e.out.Detail = "tcp reject"
						return "", true
					}
				}
			}
		}
	}
	return "", false
}

// splitCond splits action arguments from a trailing if/unless condition.
func splitCond(t []string) (args, cond []string) {
	for i, w := range t {
		if w == "if" || w == "unless" {
			return t[:i], t[i:]
		}
	}
	return t, nil
}

func (e *evalCtx) unknown(what string) {
	for _, u := range e.out.Unknown {
		if u == what {
			return
		}
	}
	e.out.Unknown = append(e.out.Unknown, what)
}

// setVar handles `set-var(name) <sample> [if cond]`.
func (e *evalCtx) setVar(t []string, l HALine) {
	name := strings.TrimSuffix(strings.TrimPrefix(t[0], "set-var("), ")")
	if i := strings.IndexByte(name, ','); i >= 0 {
		name = name[:i]
	}
	args, cond := splitCond(t[1:])
	if len(args) == 0 || !e.cond(cond) {
		return
	}
	v, ok := e.sample(args[0])
	if ok {
		e.vars[name] = v
	}
	// a lookup that finds nothing leaves the variable as it was ("not found")
}

var reExpand = regexp.MustCompile(`%\[([^\]]+)\]`)

// expand resolves a log-format string made of one %[sample].
func (e *evalCtx) expand(s string) (string, bool) {
	if !strings.Contains(s, "%[") {
		return s, true
	}
	m := reExpand.FindStringSubmatch(s)
	if m == nil {
		return s, true
	}
	v, ok := e.sample(m[1])
	return reExpand.ReplaceAllString(s, v), ok
}

func (e *evalCtx) expandAll(s string) string {
	return reExpand.ReplaceAllStringFunc(s, func(m string) string {
		v, _ := e.sample(m[2 : len(m)-1])
		return v
	})
}

// splitTop splits on commas that are not inside parentheses.
func splitTop(s string) []string {
	var out []string
	depth, start := 0, 0
	for i := 0; i < len(s); i++ {
		switch s[i] {
		case '(':
			depth++
		case ')':
			depth--
		case ',':
			if depth == 0 {
				out = append(out, s[start:i])
				start = i + 1
			}
		}
	}
	return append(out, s[start:])
}

func fnArgs(s string) (string, []string) {
	i := strings.IndexByte(s, '(')
	if i < 0 || !strings.HasSuffix(s, ")") {
		return s, nil
	}
	return s[:i], splitTop(s[i+1 : len(s)-1])
}

// sample evaluates `<fetch>[,<converter>...]`. ok=false means "no value".
func (e *evalCtx) sample(expr string) (string, bool) {
	parts := splitTop(expr)
	fn, args := fnArgs(parts[0])
	var v string
	ok := true
	switch fn {
	case "path":
		v = e.req.Path
	case "base":
		v = e.req.Host + e.req.Path
	case "method":
		v = e.req.Method
	case "hdr", "req.hdr", "req.fhdr":
		if len(args) > 0 && strings.EqualFold(args[0], "host") {
			v = e.req.Host
		} else if len(args) > 0 {
			v, ok = e.req.Headers[strings.ToLower(args[0])]
		}
	case "var":
		if len(args) > 0 {
			v, ok = e.vars[args[0]]
		}
	case "str":
		if len(args) > 0 {
			v = args[0]
		}
	case "ssl_fc":
		v = map[bool]string{true: "1", false: "0"}[e.req.HTTPS]
	case "ssl_fc_sni", "req.ssl_sni", "req_ssl_sni":
		v, ok = e.req.SNI, e.req.HTTPS
	case "ssl_fc_has_sni":
		v = map[bool]string{true: "1", false: "0"}[e.req.HTTPS && e.req.SNI != ""]
	case "ssl_c_used", "ssl_fc_has_crt":
		v = "0" // probes carry no client certificate
	case "ssl_c_verify":
		v = "0"
	case "src":
		v = "198.51.100.7"
	case "req.body_size", "req.body_len":
		v = "0"
	case "so_id":
		v = "0"
	case "http_auth", "http_auth_group":
		v = "0" // no credentials
	case "req.ssl_hello_type", "req_ssl_hello_type":
		v = "1"
	case "nbsrv":
		v = "1"
	default:
		e.unknown("fetch " + fn)
		return "", false
	}
	for _, conv := range parts[1:] {
		if !ok {
			break
		}
		cn, cargs := fnArgs(conv)
		switch {
		case cn == "lower":
			v = strings.ToLower(v)
		case cn == "upper":
			v = strings.ToUpper(v)
		case cn == "field":
			if len(cargs) >= 2 {
				idx, _ := strconv.Atoi(cargs[0])
				f := strings.Split(v, cargs[1])
				if idx >= 1 && idx <= len(f) {
					v = f[idx-1]
				} else {
					v = ""
				}
			}
		case cn == "concat":
			// concat(<start>,<var>,<end>)
			if len(cargs) > 0 {
				v += strings.ReplaceAll(cargs[0], `\#`, "#")
			}
			if len(cargs) > 1 && cargs[1] != "" {
				v += e.vars[cargs[1]]
			}
			if len(cargs) > 2 {
				v += cargs[2]
			}
		case cn == "strcmp":
			if len(cargs) > 0 {
				if v == e.vars[cargs[0]] {
					v = "0"
				} else {
					v = "1"
				}
			}
		case cn == "sub":
			a, _ := strconv.Atoi(v)
			b := 0
			if len(cargs) > 0 {
				b, _ = strconv.Atoi(cargs[0])
			}
			v = strconv.Itoa(a - b)
		case cn == "map" || strings.HasPrefix(cn, "map_"):
			method := strings.TrimPrefix(cn, "map_")
			if cn == "map" {
				method = "str"
			}
			if len(cargs) == 0 {
				ok = false
				break
			}
			entries := e.fileEntries(cargs[0])
			if r, found := lookupEntries(method, entries, v); found {
				v = r
			} else if len(cargs) > 1 {
				v = cargs[1]
			} else {
				ok = false
			}
		case cn == "bool" || cn == "not":
			// used in conditions only
		default:
			e.unknown("converter " + cn)
			ok = false
		}
	}
	return v, ok
}

func (e *evalCtx) fileEntries(path string) []mapEntry {
	var out []mapEntry
	for _, l := range e.c.Files[path] {
		f := strings.Fields(l)
		if len(f) == 0 {
			continue
		}
		me := mapEntry{Key: f[0]}
		if len(f) > 1 {
			me.Value = strings.Join(f[1:], " ")
		}
		out = append(out, me)
	}
	return out
}

// cond evaluates `if a b {...} || c` / `unless ...`. Empty = true.
func (e *evalCtx) cond(t []string) bool {
	if len(t) == 0 {
		return true
	}
	neg := t[0] == "unless"
	t = t[1:]
	// split in OR groups
	result := false
	var group []string
	flush := func() {
		if len(group) > 0 && e.andGroup(group) {
			result = true
		}
		group = nil
	}
	for _, w := range t {
		if w == "||" || w == "or" {
			flush()
			continue
		}
		group = append(group, w)
	}
	flush()
	return result != neg
}

func (e *evalCtx) andGroup(t []string) bool {
	for i := 0; i < len(t); i++ {
		w := t[i]
		neg := false
		if w == "!" && i+1 < len(t) {
			neg = true
			i++
			w = t[i]
		}
		if strings.HasPrefix(w, "!") && w != "!" {
			neg = true
			w = w[1:]
		}
		var val bool
		if w == "{" {
			j := i + 1
			for j < len(t) && t[j] != "}" {
				j++
			}
			val = e.aclExpr(t[i+1 : j])
			i = j
		} else if w == "TRUE" {
			val = true
		} else if w == "FALSE" {
			val = false
		} else {
			val = e.namedACL(w)
		}
		if val == neg {
			return false
		}
	}
	return true
}

func (e *evalCtx) namedACL(name string) bool {
	switch name {
	case "METH_OPTIONS":
		return e.req.Method == "OPTIONS"
	case "METH_GET":
		return e.req.Method == "GET"
	case "HTTP", "HTTP_1.1":
		return true
	}
	def, ok := e.acls[name]
	if !ok {
		e.unknown("acl " + name)
		return false
	}
	var cur []string
	for _, w := range append(append([]string{}, def...), "\x00") {
		if w == "\x00" {
			if len(cur) > 0 && e.aclExpr(cur) {
				return true
			}
			cur = nil
			continue
		}
		cur = append(cur, w)
	}
	return false
}

// aclExpr evaluates `<sample> [-i] [-m method] [-f file] [--] [patterns...]`.
func (e *evalCtx) aclExpr(t []string) bool {
	if len(t) == 0 {
		return false
	}
	fn, _ := fnArgs(splitTop(t[0])[0])
	val, has := e.sample(t[0])
	if fn == "path_beg" {
		// the ACL keyword is the path fetch with the beg method
		val, has = e.sample("path")
	}
	method := ""
	icase := false
	var patterns []string
	var files []string
	i := 1
	for ; i < len(t); i++ {
		switch t[i] {
		case "-i":
			icase = true
		case "-m":
			if i+1 < len(t) {
				method = t[i+1]
				i++
			}
		case "-f":
			if i+1 < len(t) {
				files = append(files, t[i+1])
				i++
			}
		case "--":
			i++
			goto rest
		default:
			goto rest
		}
	}
rest:
	patterns = append(patterns, t[i:]...)
	for _, f := range files {
		for _, en := range e.fileEntries(f) {
			patterns = append(patterns, en.Key)
		}
	}
	if method == "found" {
		return has
	}
	if !has {
		return false
	}
	// integer comparisons
	if len(patterns) >= 2 {
		switch patterns[0] {
		case "gt", "ge", "lt", "le", "eq", "ne":
			a, _ := strconv.Atoi(val)
			b, _ := strconv.Atoi(patterns[1])
			switch patterns[0] {
			case "gt":
				return a > b
			case "ge":
				return a >= b
			case "lt":
				return a < b
			case "le":
				return a <= b
			case "eq":
				return a == b
			default:
				return a != b
			}
		}
	}
	if method == "bool" || (len(patterns) == 0 && len(files) == 0) {
		return val != "" && val != "0" && val != "false"
	}
	if method == "" {
		switch fn {
		case "path_beg":
			method = "beg"
		case "src":
			e.unknown("acl on src")
			return false
		default:
			method = "str"
		}
	}
	if method == "ip" {
		e.unknown("acl -m ip")
		return false
	}
	if icase {
		val = strings.ToLower(val)
	}
	for _, p := range patterns {
		if icase {
			p = strings.ToLower(p)
		}
		if matchKey(method, p, val) {
			return true
		}
	}
	return false
}

// ---------------------------------------------------------------------------
// SNI -> certificate (crt-list evaluation)

// CertForSNI applies HAProxy's crt-list lookup: exact filter, then wildcard
// filter (*.d matches exactly one more label), else the first line.
func (c *HAConfig) CertForSNI(sni string, opt *NFOptions) string {
	fs := c.ByID["frontend _front_https"]
	if fs == nil {
		fs = c.ByID["frontend _front_https__local"]
	}
	if fs == nil {
		return "no https frontend"
	}
	var crtList string
	for _, l := range fs.Lines {
		if l.Tok[0] == "bind" {
			for i, w := range l.Tok {
				if w == "crt-list" && i+1 < len(l.Tok) {
					crtList = l.Tok[i+1]
				}
			}
		}
	}
	lines := c.Files[crtList]
	if len(lines) == 0 {
		return "empty crt-list"
	}
	sni = strings.ToLower(sni)
	type entry struct {
		crt     string
		filters []string
	}
	var entries []entry
	for _, l := range lines {
		f := strings.Fields(l)
		en := entry{crt: f[0]}
		rest := f[1:]
		if len(rest) > 0 && strings.HasPrefix(rest[0], "[") {
			j := 0
			for j < len(rest) && !strings.HasSuffix(rest[j], "]") {
				j++
			}
			rest = rest[min(j+1, len(rest)):]
		}
		en.filters = rest
		entries = append(entries, en)
	}
	for _, en := range entries {
		for _, f := range en.filters {
			if f == sni {
				return c.certID(en.crt, opt)
			}
		}
	}
	if i := strings.IndexByte(sni, '.'); i > 0 {
		wild := "*" + sni[i:]
		for _, en := range entries {
			for _, f := range en.filters {
				if f == wild {
					return c.certID(en.crt, opt)
				}
			}
		}
	}
	return c.certID(entries[0].crt, opt)
}
