#!/usr/bin/env python3
import json,sys
r=json.load(open(sys.argv[1]))
c=r['config']
print('violation:',r['violation']['class'],'\n ',r['violation']['witness'])
print('note:',r.get('note'))
print('ctl:',c['ctl'],'lagfree',c.get('lagfree'),'maporder',c.get('map_order'),'midsched',c.get('mid_sched'),'faults',c.get('faults'))
def brief(kind,o):
    m=o.get('metadata',{})
    s=f"{kind} {m.get('namespace','')}/{m.get('name')}"
    if kind=='Ingress':
        ann={k.split('/')[-1]:v for k,v in (m.get('annotations') or {}).items()}
        sp=o.get('spec',{})
        rules=[(ru.get('host',''),[(p.get('path'),p.get('pathType'),p['backend']['service']['name'],p['backend']['service']['port']) for p in ((ru.get('http') or {}).get('paths') or [])]) for ru in sp.get('rules',[])]
        s+=f" created={m.get('creationTimestamp')} class={sp.get('ingressClassName')} ann={ann} rules={rules} tls={sp.get('tls')} default={sp.get('defaultBackend')}"
    elif kind=='ConfigMap': s+=f" data={o.get('data')}"
    elif kind=='Endpoints': s+=' '+str([( [a['ip'] for a in ss.get('addresses',[])], [a['ip'] for a in ss.get('notReadyAddresses',[])], ss.get('ports')) for ss in o.get('subsets',[])])
    elif kind=='Service': s+=f" ann={m.get('annotations')} ports={[(p.get('name'),p['port'],p['targetPort']) for p in o['spec'].get('ports',[])]} gen={m.get('generation')}"
    elif kind=='Secret': s+=f" keys={list((o.get('data') or {}).keys())}"
    elif kind=='IngressClass': s+=f" controller={o['spec'].get('controller')}"
    elif kind=='Pod': s+=f" ip={o.get('status',{}).get('podIP')} labels={m.get('labels')} del={m.get('deletionTimestamp')}"
    else: s+=' '+json.dumps(o.get('spec'))[:600]
    return s
print('--- world')
for o in c['world']['objects']: print('  ',brief(o['kind'],o['obj']))
print('--- ops')
for i,o in enumerate(c['ops']):
    if o['type']=='apply': print(f'  {i+1}. apply',brief(o['kind'],o['obj']),'#',o.get('note',''))
    else: print(f'  {i+1}.',{k:v for k,v in o.items() if k!='obj'})
print('--- tape sites:',{k:len(v) for k,v in r['tape'].items()})
