#!/bin/sh
# usage: intake1.sh <PROP> <worktree> <id> [runs]: copy one agent change (MUTANT/m1) to seeded/<id>, confirm it, run the check against it
P=$1; WT=$2; ID=$3; RUNS=${4:-6000}
mkdir -p /verif/seeded/$ID; cp $WT/MUTANT/m1/* /verif/seeded/$ID/ 2>/dev/null
d=$(ls /verif/seeded/$ID/*_test.go | head -1); [ "$d" != "/verif/seeded/$ID/demo_test.go" ] && mv $d /verif/seeded/$ID/demo_test.go
DIR=$(sed -n 's/^pkgdir: *//p' /verif/seeded/$ID/README.md | head -1 | tr -d '` ')
echo "pkgdir=$DIR"
/verif/confirm_mutant.sh $ID $DIR
grep -l "no tests to run" /tmp/cm-$ID.clean
tail -3 /tmp/cm-$ID.clean; tail -5 /tmp/cm-$ID.patched | cut -c1-200; tail -3 /tmp/cm-$ID.pkg
git -C /repo worktree remove --force $WT
/verif/trymutant_bg.sh $ID /verif/seeded/$ID/patch.diff $P $RUNS; echo "== $ID"; grep -A3 "^VIOLATION\|held\|exit=\|trouble" /tmp/mutout-$ID/log | cut -c1-420 | head -12
