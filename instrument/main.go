// hapsim-instrument rewrites a scratch copy of the haproxy-ingress tree so that
// file I/O, sockets, DNS, map iteration order and the entry points of the
// controller's worker goroutines go through the zzsimrt seams. /repo itself is
// never touched. Every rewrite is semantics preserving when no simulation is
// active (see simrt/simrt.go).
//
// usage: hapsim-instrument -dir <scratch tree> [-yields] [-report file]
//
// exit 0 on success, 2 on any trouble (never 1: an instrumentation problem is
// harness trouble, not a property violation).
package main

import (
	"bytes"
	"encoding/json"
	"flag"
	"fmt"
	"go/ast"
	"go/format"
	"go/parser"
	"go/token"
	"go/types"
	"os"
	"path/filepath"
	"reflect"
	"sort"
	"strconv"
	"strings"

	"golang.org/x/tools/go/ast/astutil"
	"golang.org/x/tools/go/packages"
)

const simrtPath = "github.com/jcmoraisjr/haproxy-ingress/zzsimrt"

type report struct {
	Sites map[string]int      `json:"sites"`
	Files map[string][]string `json:"files"`
	Gates []string            `json:"gates"`
	Notes []string            `json:"notes"`
}

var rep = report{Sites: map[string]int{}, Files: map[string][]string{}}

func die(format string, a ...any) {
	fmt.Fprintf(os.Stderr, "hapsim-instrument: "+format+"\n", a...)
	os.Exit(2)
}

// packages whose map ranges are rewritten (I3)
var mapOrderPkgs = []string{
	"./pkg/converters/...",
	"./pkg/haproxy/...",
	"./pkg/controller/services/...",
	"./pkg/controller/reconciler/...",
	"./pkg/utils/...",
	"./pkg/acme",
}

// file I/O seam (I1): package path suffix -> true
var fsPkgs = map[string]bool{
	"pkg/haproxy":             true,
	"pkg/haproxy/template":    true,
	"pkg/haproxy/socket":      true,
	"pkg/controller/services": true,
}

var fsFuncs = map[string]bool{"WriteFile": true, "ReadFile": true, "Stat": true, "Rename": true, "Remove": true}

// network seam (I2)
var netPkgs = map[string]map[string]bool{
	"pkg/haproxy/socket":                 {"Dial": true},
	"pkg/controller/services":            {"LookupIP": true, "LookupHost": true},
	"pkg/converters/ingress/annotations": {"LookupIP": true, "LookupHost": true},
}

// gates (I6): package suffix -> receiver type -> method -> gate name
type gateSpec struct{ pkg, recv, method, name string }

var gateSpecs = []gateSpec{
	{"pkg/controller/reconciler", "IngressReconciler", "Reconcile", "reconcile"},
	{"pkg/controller/services", "Services", "reloadHAProxy", "reload"},
	{"pkg/controller/services", "Services", "acmeCheck", "acmecheck"},
	{"pkg/controller/services", "svcStatusUpdater", "notify", "status"},
	// the acme queue worker: one certificate verification at a time, when the scheduler says so.
	// The gate sits where the processing of a queue item starts: the callback of the queue
	// (svcAcmeClient.notify) when the tree has it, else the signer entry point.
	{"pkg/controller/services", "svcAcmeClient", "notify", "acmenotify"},
	{"pkg/acme", "signer", "Notify", "acmenotify"},
}

// gateTaken: gate names already placed (the first spec of a name that matches wins).
var gateTaken = map[string]bool{}

// prologues (I7): statements put at the start of a method; they only use
// identifiers the injected export file of that package declares (tag verif).
type prologueSpec struct{ pkg, recv, method, name, src string }

var prologueSpecs = []prologueSpec{
	// leadership is decided by the harness (no API server to hold a lease against)
	{"pkg/controller/services", "svcLeader", "isLeader", "leader", "if simLeader != nil { return *simLeader }"},
	// the acme work queue facade: the harness observes what the instance asks for
	{"pkg/controller/services", "svcAcmeClient", "Add", "acme.add", `simAcmeNote("add", item)`},
	{"pkg/controller/services", "svcAcmeClient", "AddAfter", "acme.addafter", `simAcmeNote("addafter", item)`},
	{"pkg/controller/services", "svcAcmeClient", "Remove", "acme.remove", `simAcmeNote("remove", item)`},
	// which queue item (full or partial) a reconciliation was asked with
	{"pkg/controller/reconciler", "IngressReconciler", "Reconcile", "reconcile.param", `simReconcileNote(req.fullsync)`},
	// what the watchers hold when a batch is taken (the hand-off to the services is observed at the call, below)
	{"pkg/controller/reconciler", "watchers", "getChangedObjects", "batch.taken", `simBatchTaken(w)`},
	{"pkg/controller/services", "Services", "ReconcileIngress", "batch.delivered", `simBatchDelivered(changed)`},
	// the ACME protocol client (network) is replaced by the one the harness provides
	{"pkg/acme", "signer", "AcmeAccount", "acme.client", `if SimClientFactory != nil {
		s.client = nil
		if c := SimClientFactory(endpoint, emails, termsAgreed); c != nil { s.client = c }
		s.account = Account{Endpoint: endpoint, Emails: emails, TermsAgreed: termsAgreed}
		return
	}`},
}

func insertPrologues(p *packages.Package, f *ast.File, rel, filename string) bool {
	changed := false
	for _, d := range f.Decls {
		fd, ok := d.(*ast.FuncDecl)
		if !ok || fd.Body == nil {
			continue
		}
		for _, ps := range prologueSpecs {
			if ps.pkg != rel || ps.recv != recvName(fd) || ps.method != fd.Name.Name {
				continue
			}
			pf, err := parser.ParseFile(token.NewFileSet(), "", "package p\nfunc f() {\n"+ps.src+"\n}", 0)
			if err != nil {
				die("prologue %s: %v", ps.name, err)
			}
			stmts := pf.Decls[0].(*ast.FuncDecl).Body.List
			// positions of the parsed snippet belong to another file set: drop them
			for _, st := range stmts {
				ast.Inspect(st, func(n ast.Node) bool { clearPos(n); return true })
			}
			fd.Body.List = append(append([]ast.Stmt{}, stmts...), fd.Body.List...)
			note("I7.prologue", filename, ps.name)
			changed = true
		}
	}
	return changed
}

// clearPos zeroes the token positions of a node built from another file set.
func clearPos(n ast.Node) {
	if n == nil {
		return
	}
	v := reflect.ValueOf(n)
	if v.Kind() != reflect.Ptr || v.IsNil() {
		return
	}
	e := v.Elem()
	if e.Kind() != reflect.Struct {
		return
	}
	for i := 0; i < e.NumField(); i++ {
		fld := e.Field(i)
		if fld.Type() == reflect.TypeOf(token.NoPos) && fld.CanSet() {
			fld.SetInt(0)
		}
	}
}

func main() {
	dir := flag.String("dir", "", "scratch tree")
	yields := flag.Bool("yields", false, "insert cooperative yields in watchers.go (C14 build)")
	reportFile := flag.String("report", "", "write JSON report here")
	flag.Parse()
	if *dir == "" {
		die("missing -dir")
	}
	abs, err := filepath.Abs(*dir)
	if err != nil {
		die("%v", err)
	}
	cfg := &packages.Config{
		Mode: packages.NeedName | packages.NeedFiles | packages.NeedCompiledGoFiles | packages.NeedImports |
			packages.NeedTypes | packages.NeedSyntax | packages.NeedTypesInfo | packages.NeedTypesSizes,
		Dir:   abs,
		Tests: false,
		Env:   os.Environ(),
	}
	pkgs, err := packages.Load(cfg, mapOrderPkgs...)
	if err != nil {
		die("load: %v", err)
	}
	nerr := 0
	for _, p := range pkgs {
		for _, e := range p.Errors {
			fmt.Fprintf(os.Stderr, "hapsim-instrument: %s: %v\n", p.PkgPath, e)
			nerr++
		}
	}
	if nerr > 0 {
		die("%d package error(s); the tree does not type-check", nerr)
	}
	sort.Slice(pkgs, func(i, j int) bool { return pkgs[i].PkgPath < pkgs[j].PkgPath })
	// a gate name with several candidate places goes to the first one (in gateSpecs order) the tree has
	{
		exists := map[int]bool{}
		for _, p := range pkgs {
			rel := strings.TrimPrefix(p.PkgPath, "github.com/jcmoraisjr/haproxy-ingress/")
			for _, f := range p.Syntax {
				for _, d := range f.Decls {
					if fd, ok := d.(*ast.FuncDecl); ok && fd.Body != nil {
						for i, gs := range gateSpecs {
							if gs.pkg == rel && gs.recv == recvName(fd) && gs.method == fd.Name.Name {
								exists[i] = true
							}
						}
					}
				}
			}
		}
		chosen := map[string]bool{}
		var keep []gateSpec
		for i, gs := range gateSpecs {
			if exists[i] && !chosen[gs.name] {
				chosen[gs.name] = true
				keep = append(keep, gs)
			}
		}
		gateSpecs = keep
	}
	for _, p := range pkgs {
		rel := strings.TrimPrefix(p.PkgPath, "github.com/jcmoraisjr/haproxy-ingress/")
		for i, f := range p.Syntax {
			filename := p.CompiledGoFiles[i]
			if strings.HasSuffix(filename, "_test.go") || !strings.HasPrefix(filename, abs) {
				continue
			}
			changed := false
			if rewriteMapRanges(p, f, filename) {
				changed = true
			}
			if fsPkgs[rel] && rewriteSelectors(p, f, "os", fsFuncs, "I1.fs", filename) {
				changed = true
			}
			if fns := netPkgs[rel]; fns != nil && rewriteSelectors(p, f, "net", fns, "I2.net", filename) {
				changed = true
			}
			if insertGates(p, f, rel, filename) {
				changed = true
			}
			plainChanged := insertPrologues(p, f, rel, filename)
			if *yields && rel == "pkg/controller/reconciler" && filepath.Base(filename) == "watchers.go" {
				if insertYields(p, f, filename) {
					changed = true
				}
			}
			if changed {
				astutil.AddImport(p.Fset, f, simrtPath)
				for _, imp := range []string{"os", "net"} {
					if !astutil.UsesImport(f, imp) {
						astutil.DeleteImport(p.Fset, f, imp)
					}
				}
			}
			if changed || plainChanged {
				var buf bytes.Buffer
				if err := format.Node(&buf, p.Fset, f); err != nil {
					die("format %s: %v", filename, err)
				}
				if err := os.WriteFile(filename, buf.Bytes(), 0644); err != nil {
					die("write %s: %v", filename, err)
				}
			}
		}
	}
	// sanity: the pinned tree has sites for every pass; zero means the pass is broken.
	for _, pass := range []string{"I1.fs", "I2.net", "I3.maprange", "I6.gate", "I7.prologue"} {
		if rep.Sites[pass] == 0 {
			die("pass %s rewrote zero sites", pass)
		}
	}
	if rep.Sites["I7.prologue"] != len(prologueSpecs) {
		die("pass I7.prologue placed %d of %d prologues", rep.Sites["I7.prologue"], len(prologueSpecs))
	}
	if len(rep.Gates) < 2 {
		die("gates found: %v (need at least reconcile and reload)", rep.Gates)
	}
	if *yields && rep.Sites["I4.yield"] == 0 {
		die("pass I4.yield rewrote zero sites")
	}
	if *reportFile != "" {
		b, _ := json.MarshalIndent(rep, "", " ")
		if err := os.WriteFile(*reportFile, b, 0644); err != nil {
			die("%v", err)
		}
	}
	fmt.Printf("hapsim-instrument: %v\n", rep.Sites)
}

func site(p *packages.Package, pos token.Pos) string {
	position := p.Fset.Position(pos)
	return filepath.Base(filepath.Dir(position.Filename)) + "/" + filepath.Base(position.Filename) + ":" + strconv.Itoa(position.Line)
}

// funcSites names a position by its enclosing function and an ordinal inside
// it, so that a site id survives edits elsewhere in the file (replay files and
// recorded findings refer to these ids).
type funcSites struct {
	p      *packages.Package
	f      *ast.File
	counts map[string]int
}

func (fs *funcSites) name(pos token.Pos) string {
	fn := "init"
	for _, d := range fs.f.Decls {
		if fd, ok := d.(*ast.FuncDecl); ok && fd.Pos() <= pos && pos <= fd.End() {
			fn = fd.Name.Name
			if r := recvName(fd); r != "" {
				fn = r + "." + fn
			}
		}
	}
	position := fs.p.Fset.Position(pos)
	key := filepath.Base(filepath.Dir(position.Filename)) + "/" + filepath.Base(position.Filename) + ":" + fn
	fs.counts[key]++
	return key + "#" + strconv.Itoa(fs.counts[key])
}

func note(pass, filename, what string) {
	rep.Sites[pass]++
	rep.Files[pass] = append(rep.Files[pass], what)
}

// rewriteMapRanges wraps the range expression of every `for ... range m` whose m is a map.
func rewriteMapRanges(p *packages.Package, f *ast.File, filename string) bool {
	changed := false
	fsites := &funcSites{p: p, f: f, counts: map[string]int{}}
	ast.Inspect(f, func(n ast.Node) bool {
		rs, ok := n.(*ast.RangeStmt)
		if !ok {
			return true
		}
		tv, ok := p.TypesInfo.Types[rs.X]
		if !ok || tv.Type == nil {
			return true
		}
		mt, ok := tv.Type.Underlying().(*types.Map)
		if !ok {
			return true
		}
		if _, isPtr := mt.Key().Underlying().(*types.Pointer); isPtr {
			rep.Notes = append(rep.Notes, "pointer-keyed map range at "+site(p, rs.Pos()))
		}
		s := fsites.name(rs.Pos())
		rs.X = &ast.CallExpr{
			Fun:  &ast.SelectorExpr{X: ast.NewIdent("zzsimrt"), Sel: ast.NewIdent("Range")},
			Args: []ast.Expr{&ast.BasicLit{Kind: token.STRING, Value: strconv.Quote(s)}, rs.X},
		}
		note("I3.maprange", filename, s)
		changed = true
		return true
	})
	return changed
}

// rewriteSelectors turns <pkgname>.<Func> into zzsimrt.<Func> where pkgname really is the named import.
func rewriteSelectors(p *packages.Package, f *ast.File, importPath string, funcs map[string]bool, pass, filename string) bool {
	changed := false
	ast.Inspect(f, func(n ast.Node) bool {
		sel, ok := n.(*ast.SelectorExpr)
		if !ok {
			return true
		}
		id, ok := sel.X.(*ast.Ident)
		if !ok {
			return true
		}
		pn, ok := p.TypesInfo.Uses[id].(*types.PkgName)
		if !ok || pn.Imported().Path() != importPath || !funcs[sel.Sel.Name] {
			return true
		}
		id.Name = "zzsimrt"
		note(pass, filename, site(p, sel.Pos())+" "+importPath+"."+sel.Sel.Name)
		changed = true
		return true
	})
	return changed
}

func recvName(fd *ast.FuncDecl) string {
	if fd.Recv == nil || len(fd.Recv.List) == 0 {
		return ""
	}
	t := fd.Recv.List[0].Type
	if st, ok := t.(*ast.StarExpr); ok {
		t = st.X
	}
	if ix, ok := t.(*ast.IndexExpr); ok {
		t = ix.X
	}
	if id, ok := t.(*ast.Ident); ok {
		return id.Name
	}
	return ""
}

func insertGates(p *packages.Package, f *ast.File, rel, filename string) bool {
	changed := false
	for _, d := range f.Decls {
		fd, ok := d.(*ast.FuncDecl)
		if !ok || fd.Body == nil {
			continue
		}
		for _, gs := range gateSpecs {
			if gs.pkg != rel || gs.recv != recvName(fd) || gs.method != fd.Name.Name || gateTaken[gs.name] {
				continue
			}
			gateTaken[gs.name] = true
			stmt := &ast.DeferStmt{Call: &ast.CallExpr{
				Fun: &ast.SelectorExpr{X: ast.NewIdent("zzsimrt"), Sel: ast.NewIdent("GateDone")},
				Args: []ast.Expr{&ast.CallExpr{
					Fun:  &ast.SelectorExpr{X: ast.NewIdent("zzsimrt"), Sel: ast.NewIdent("Gate")},
					Args: []ast.Expr{&ast.BasicLit{Kind: token.STRING, Value: strconv.Quote(gs.name)}},
				}},
			}}
			fd.Body.List = append([]ast.Stmt{stmt}, fd.Body.List...)
			note("I6.gate", filename, gs.name)
			rep.Gates = append(rep.Gates, gs.name)
			changed = true
		}
	}
	return changed
}

// insertYields puts zzsimrt.Yield("file:line") before every statement of every
// function body in the file and replaces sync.Mutex fields by zzsimrt.Mutex.
func insertYields(p *packages.Package, f *ast.File, filename string) bool {
	changed := false
	var walkBlock func(b *ast.BlockStmt)
	yieldStmt := func(pos token.Pos) ast.Stmt {
		return &ast.ExprStmt{X: &ast.CallExpr{
			Fun:  &ast.SelectorExpr{X: ast.NewIdent("zzsimrt"), Sel: ast.NewIdent("Yield")},
			Args: []ast.Expr{&ast.BasicLit{Kind: token.STRING, Value: strconv.Quote(site(p, pos))}},
		}}
	}
	var instrumentList func(list []ast.Stmt) []ast.Stmt
	walkStmt := func(s ast.Stmt) {
		ast.Inspect(s, func(n ast.Node) bool {
			switch x := n.(type) {
			case *ast.FuncLit:
				walkBlock(x.Body)
				return false
			case *ast.SwitchStmt:
				for _, c := range x.Body.List {
					cc := c.(*ast.CaseClause)
					cc.Body = instrumentList(cc.Body)
				}
				return false
			case *ast.TypeSwitchStmt:
				for _, c := range x.Body.List {
					cc := c.(*ast.CaseClause)
					cc.Body = instrumentList(cc.Body)
				}
				return false
			case *ast.SelectStmt:
				for _, c := range x.Body.List {
					cc := c.(*ast.CommClause)
					cc.Body = instrumentList(cc.Body)
				}
				return false
			case *ast.BlockStmt:
				walkBlock(x)
				return false
			}
			return true
		})
	}
	instrumentList = func(list []ast.Stmt) []ast.Stmt {
		var out []ast.Stmt
		for _, s := range list {
			walkStmt(s)
			out = append(out, yieldStmt(s.Pos()), s)
			note("I4.yield", filename, site(p, s.Pos()))
			changed = true
		}
		return out
	}
	walkBlock = func(b *ast.BlockStmt) {
		if b == nil {
			return
		}
		b.List = instrumentList(b.List)
	}
	for _, d := range f.Decls {
		switch x := d.(type) {
		case *ast.FuncDecl:
			walkBlock(x.Body)
		case *ast.GenDecl:
			// sync.Mutex struct fields -> zzsimrt.Mutex
			ast.Inspect(x, func(n ast.Node) bool {
				fld, ok := n.(*ast.Field)
				if !ok {
					return true
				}
				if sel, ok := fld.Type.(*ast.SelectorExpr); ok {
					if id, ok := sel.X.(*ast.Ident); ok && id.Name == "sync" && sel.Sel.Name == "Mutex" {
						id.Name = "zzsimrt"
						note("I4.mutex", filename, site(p, fld.Pos()))
						changed = true
					}
				}
				return true
			})
		}
	}
	if changed && !astutil.UsesImport(f, "sync") {
		astutil.DeleteImport(p.Fset, f, "sync")
	}
	return changed
}
