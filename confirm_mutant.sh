#!/bin/sh
# usage: confirm_mutant.sh <seeded-id> <pkgdir>: demo passes on clean HEAD, fails with patch; build ok
ID=$1; DIR=$2; WT=/tmp/cm-$ID
export GOFLAGS=-mod=mod GOPROXY=off GOSUMDB=off GOTOOLCHAIN=local
git -C /repo worktree remove --force $WT 2>/dev/null
git -C /repo worktree add -q --detach $WT HEAD || exit 1
cp /verif/seeded/$ID/demo_test.go $WT/$DIR/zz_demo_test.go
( cd $WT && go test -vet=off -count=1 -run 'Demo|C[0-9]+M[0-9]|TestM[0-9]|TestObs|Test' ./$DIR/ >/tmp/cm-$ID.clean 2>&1; echo "clean: exit=$?" )
( cd $WT && git apply /verif/seeded/$ID/patch.diff && go build ./... && echo "patched: build ok" )
( cd $WT && go test -vet=off -count=1 -run 'Demo|C[0-9]+M[0-9]|TestM[0-9]|TestObs|Test' ./$DIR/ >/tmp/cm-$ID.patched 2>&1; echo "patched: demo exit=$?" )
( cd $WT && rm $DIR/zz_demo_test.go && go test -vet=off -count=1 ./$DIR/ >/tmp/cm-$ID.pkg 2>&1; echo "patched: package tests exit=$?" )
git -C /repo worktree remove --force $WT
