#!/bin/sh
# usage: trymutant_bg.sh <name> <patch> <PROP> [runs] [extra args]: run a check against a scratch worktree of /repo HEAD with the patch applied
N=$1; P=$2; PROP=$3; RUNS=${4:-6000}; shift 4 2>/dev/null
WT=/tmp/mut-$N; OUT=/tmp/mutout-$N
rm -rf $OUT; mkdir -p $OUT
git -C /repo worktree remove --force $WT 2>/dev/null
git -C /repo worktree add -q --detach $WT HEAD || exit 1
( cd $WT && git apply $P ) || { echo "APPLY FAILED" > $OUT/log; git -C /repo worktree remove --force $WT; exit 1; }
( cd $WT && go build ./... ) || { echo "BUILD FAILED" > $OUT/log; git -C /repo worktree remove --force $WT; exit 1; }
HAPSIM_REPO=$WT HAPSIM_OUT_DIR=$OUT /verif/bin/hapsim check $PROP --runs $RUNS --procs ${HAPSIM_PROCS:-16} "$@" > $OUT/log 2>&1
echo "exit=$?" >> $OUT/log
git -C /repo worktree remove --force $WT
