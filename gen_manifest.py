#!/usr/bin/env python3
# Regenerates MANIFEST.json from the table below (kept as code so that it stays valid and consistent).
import json
props=[json.loads(l) for l in open('/verif/properties.jsonl')]
ids=[p['id'] for p in props]
claimed={
 'C01': ("exploration", "Seeded search over histories (8-60 operations on all watched kinds), informer lag/interleavings, batch contents and map iteration orders; at every quiescent point the normal form of the files written by the long-running real controller is compared with the one of a fresh controller on the same stores, and the running SimHAProxy with the files. A clean batch is evidence, not proof; this is the level a history-quantified property over an unbounded input space admits.", "3 C01", "deterministic simulation: real controller under synctest vs SimKube/SimDisk/SimHAProxy; fresh-controller differential oracle on a behavioural normal form"),
 'C05': ("exploration", "Seeded search over lag-free histories with 0/1/3/8 backend shards, biased to full syncs, deletions and reverted changes; after every completed update every *.cfg and every referenced file is compared with a fresh controller's, section by section (duplicates and stale sections are witnesses).", "3 C05", "deterministic simulation; per-update differential oracle against a fresh controller over all files HAProxy would load"),
 'C02': ("exploration", "Seeded histories of endpoint, weight, readiness, certificate and configuration changes applied through the real dynamic updater to SimHAProxy, with and without socket faults on individual runtime commands; after every update that did not reload, and at every quiescent point, the running state (loaded configuration + runtime edits) is compared with what loading the files just written would give.", "3 C02", "deterministic simulation with socket fault injection; running-state vs files differential oracle"),
 'C11': ("exploration", "Seeded histories of (a) spurious re-notifications and content-neutral updates, (b) endpoint churn under dynamic scaling; a capacity model fed only by the generated configuration decides whether a reload was needed, and every loaded configuration is checked for slots-min-free / slots-increment.", "3 C11", "deterministic simulation; reload counting against a reference capacity model"),
 'C12': ("exploration", "Seeded histories with socket, reload and certificate-read faults injected at each failure point of an update, once or repeatedly; then faults stop, no further cluster change happens, and within the documented retry bound the files must equal a fresh controller's and the running HAProxy must equal the files (bounded liveness).", "3 C12", "deterministic simulation with fault injection; bounded-time convergence oracle after the last fault"),
 'C13': ("exploration", "The real limiters and queues (client-go delaying queue, controller-runtime worker) on the fake clock, driven with arrival patterns generated relative to the interval; spacing, coalescing and bounded-wait oracles over the recorded start times.", "3 C13", "deterministic simulation on a fake clock; timestamp-history oracles"),
 'C14': ("exploration", "The real watchers driven by cooperative tasks whose interleaving the tape decides at statement granularity; conservation, porcupine linearizability against an accumulator model, ConfigMap chaining and class-transition oracles.", "3 C14", "deterministic simulation with a cooperative scheduler; linearizability checking (porcupine)"),
 'C07': ("exploration", "Every configuration written in every simulated history (including partially synced, lagging and multi-owner states) is parsed as `haproxy -f <dir>` would and analysed for dangling or duplicated references; SimHAProxy's loader records the same at each reload.", "3 C07", "deterministic simulation; reference-integrity analysis of every written configuration"),
}
na={
 'C16': "pure integer/float arithmetic recomputed from scratch per sync (RebalanceWeight, 0..256 clamp): no schedule, clock, fault or history can change the result for a given input, so seeded simulation adds nothing over input enumeration, which is another technique; runtime application of weights is inside C02's oracle",
 'C19': "buildBackendCustomConfig/firstToken is a pure function of (keyword list, snippet text) evaluated from scratch per backend; nothing time-, order-, fault- or history-dependent takes part",
}
checks=[]
for pid,(cat,text,ref,tech) in claimed.items():
    checks.append({"property_id":pid,"quick_cmd":f"bin/hapsim check {pid} --tier quick","thorough_cmd":f"bin/hapsim check {pid} --tier thorough",
      "evidence_file":f"evidence/{pid}.json","replay_cmd_template":"bin/hapsim replay {path}","engine":"hapsim",
      "level_claimed":{"category":cat,"text":text,"design_ref":"DESIGN.md §"+ref},
      "level_note":"trusted: SimKube's informer model, SimHAProxy's loader/CLI model and configuration parser, the normal-form rules listed in the evidence, synctest's fake clock; external-HAProxy mode only; findings recorded in known_findings.json are excluded from the exploration by generator constraints and re-demonstrated by their replay files",
      "technique":tech})
notapp=[{"property_id":p,"reason":r} for p,r in na.items()]
for p in ids:
    if p not in claimed and p not in na:
        notapp.append({"property_id":p,"reason":"not claimed yet: the check for this property is still being built (see DESIGN.md §6 build-out order)"})
m={"version":1,"setup_cmd":"./setup.sh",
 "hooks":{"guard":"verif","enable":"no source line of /repo carries a hook: every check builds an instrumented scratch copy of /repo's working tree (bin/hapsim-instrument: os.*/net.* seams, range-over-map order, gates) with -tags verif; /repo itself is never edited by the machinery","baseline_off_cmd":"cd /repo && go build ./... && go test -vet=off -count=1 -timeout 25m ./...","source_commits":[],"add_only":True},
 "engines":[{"name":"hapsim","path":"bin/hapsim","serves_properties":sorted(claimed.keys()),"kind_free_text":"deterministic simulation with fault injection: the real controller (reconciler, services, converters, haproxy instance, templates, socket code, rate limiters, controller-runtime worker) runs inside testing/synctest against simulated Kubernetes API/informers, disk and HAProxy; every schedule, delay, map order and fault comes from one seed; violations are confirmed, minimised and written as replay files"}],
 "checks":checks,"not_applicable":notapp,
 "notes":"fix: commits in /repo repair genuine defects found by these checks (see known_findings.json, status fixed); open findings print KNOWN-FINDING lines."}
json.dump(m,open('/verif/MANIFEST.json','w'),indent=1)
print(len(checks),'checks',len(notapp),'not applicable')
