#!/bin/sh
# usage: intake.sh <PROP> <worktree> <idA> <pkgdirA> <idB> <pkgdirB> [runs]: copy two agent changes to seeded/, confirm them, run the check
P=$1; WT=$2; A=$3; DA=$4; B=$5; DB=$6; RUNS=${7:-6000}
i=1
for id in $A $B; do
  mkdir -p /verif/seeded/$id; cp $WT/MUTANT/m$i/* /verif/seeded/$id/ 2>/dev/null
  d=$(ls /verif/seeded/$id/*_test.go | head -1); [ "$d" != "/verif/seeded/$id/demo_test.go" ] && mv $d /verif/seeded/$id/demo_test.go
  i=$((i+1))
done
/verif/confirm_mutant.sh $A $DA; /verif/confirm_mutant.sh $B $DB
grep -l "no tests to run" /tmp/cm-$A.clean /tmp/cm-$B.clean
git -C /repo worktree remove --force $WT
for id in $A $B; do /verif/trymutant_bg.sh $id /verif/seeded/$id/patch.diff $P $RUNS; echo "== $id"; grep -A3 "^VIOLATION\|held\|exit=\|trouble" /tmp/mutout-$id/log | cut -c1-420 | head -9; done
