#!/usr/bin/env python3
# regenerates the tables of DESIGN.md §5.1, §5.2 and §7.3 from known_findings.json and seeded/*/meta.json
import json,glob,os,re
p='/verif/DESIGN.md'
s=open(p).read()
d=json.load(open('/verif/known_findings.json'))
def row(f): return re.sub(r'^fixed: property=\S+ \S+ ','',f['description']).replace('|','/')
fx=[f for f in d['findings'] if f['status']=='fixed']
kf=[f for f in d['findings'] if f['status']=='open']
t51='| entry | commit | properties | what failed |\n|---|---|---|---|\n'+'\n'.join('| %s | %s | %s | %s |'%(f['id'],f['commit'],','.join(f['properties']),row(f)) for f in fx)
t52='| entry | properties | generator constraint | what fails and why it is not repaired here |\n|---|---|---|---|\n'+'\n'.join('| %s | %s | `%s` | %s |'%(f['id'],','.join(f['properties']),f.get('avoid',''),row(f)) for f in kf)
rows=[]
for m in sorted(glob.glob('/verif/seeded/*/meta.json')):
    j=json.load(open(m)); k=os.path.basename(os.path.dirname(m))
    rows.append('| %s | %s | %s | %s |'%(k, j['breaks'].replace('|','/'), j['needs'].replace('|','/'), j['detected_by'].replace('|','/')))
t73='| change | what it breaks | needs | detected by |\n|---|---|---|---|\n'+'\n'.join(rows)
def repl(s,head,table):
    # replace the first markdown table that follows the heading line
    i=s.index(head)
    a=s.index('\n| ',i)+1
    b=a
    while s[b:b+1]=='|':
        b=s.index('\n',b)+1
    return s[:a]+table+'\n'+s[b:]
s=repl(s,'### 5.1 Repaired in /repo',t51)
s=re.sub(r'### 5\.1 Repaired in /repo \(\d+ `fix:` commits\)','### 5.1 Repaired in /repo (%d `fix:` commits)'%len(set(f['commit'] for f in fx)),s)
s=repl(s,'### 5.2 Recorded, not repaired',t52)
s=repl(s,'### 7.3 Seeded changes',t73)
open(p,'w').write(s)
print(len(fx),'fixed',len(kf),'open',len(rows),'seeded')
