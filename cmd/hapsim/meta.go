package main

type meta struct {
	rule        string
	assumptions []string
	real, stub  []string
}

var realL2 = []string{
	"pkg/controller/reconciler (watchers, predicates, handlers, batch swap, Reconcile, SetupWithManager)",
	"pkg/controller/services (Services.SetupWithManager/ReconcileIngress/reloadHAProxy, cache facade, ssl certificate handling)",
	"pkg/converters/** (ingress, gateway, configmap tcp, tracker, annotations)",
	"pkg/haproxy/** (instance, config, dynupdate, types, maps, templates) with rootfs/etc/templates of the tree under test",
	"pkg/haproxy/socket (Send/send framing, HAProxyProcs)",
	"pkg/utils/workqueue rate limiters, client-go delaying/rate-limiting queues (fake clock)",
	"controller-runtime controller worker loop, source.Kind and event-handler glue",
}

var stubL2 = []string{
	"Kubernetes API server, informers and cache-backed client: SimKube",
	"HAProxy master/admin CLI and configuration loader: SimHAProxy",
	"file system for outputs: SimDisk (in-memory, fault injecting)",
	"controller-runtime Manager: stub (Add/GetCache/GetLogger/GetControllerOptions)",
	"DNS: table",
	"wall clock: testing/synctest fake clock",
	"leader election: off",
}

var propMeta = map[string]meta{}

func init() {
	l2 := func(rule string, assumptions ...string) meta {
		return meta{rule: rule, assumptions: assumptions, real: realL2, stub: stubL2}
	}
	propMeta["C01"] = l2("each run = generated world + 8..60 operations over all watched kinds (tcp-services ConfigMap in one run of five; Gateway API worlds with Service annotations in profile churn-gateway), scheduled by the tape; non-trivial = at least 2 reconciliations and 2 comparisons against a fresh controller; distinct = distinct trace signature",
		"normal-form rules: file names inlined by content, fs prefix stripped, certificates by key-pair identity, server slot names/empty slots/order removed, path ids replaced by their map keys, auth-proxy names/ports renamed after their target")
	propMeta["C05"] = l2("lag-free histories (every completed update is a sync point) over shard counts 0,1,3,8 biased to full syncs and deletions; non-trivial = at least 2 reconciliations compared with a fresh controller; distinct = distinct trace signature",
		"comparison covers every *.cfg of the directory and every file they reference; unreferenced stale files on disk are not loaded by HAProxy and are ignored")
	propMeta["C07"] = l2("stress, stress-static (strict-host on static worlds) and stress-gateway (Gateway API worlds) profiles: every configuration written in a run without disk faults is analysed; non-trivial = at least 2 analysed configurations; distinct = distinct trace signature",
		"fatal = what HAProxy refuses at load (unknown backend/userlist/file, duplicated section/server/bind); dangling = map value or path id that resolves to nothing")
	propMeta["C02"] = l2("endpoint/weight/certificate churn (chain-only rotations included) with runtime commands and socket faults (refused commit ssl cert among them); an admin connection belongs to the worker process that accepted it; non-trivial = runtime commands were sent and the running state was compared with the files at least once; distinct = distinct trace signature")
	propMeta["C11"] = l2("(a) histories of spurious re-notifications (with a tcp-services ConfigMap in one run of three, with service backed external authentication in profile quiet-renotify-auth, and with dynamic-scaling=false backends, drain-support and a configured endpoint order in profile quiet-renotify-static), (b) endpoint churn under dynamic scaling; non-trivial = at least 2 reconciliations after start-up; distinct = distinct trace signature")
	propMeta["C13"] = meta{rule: "each run = one limiter (reload or reconcile), one interval setting and 3..28 notification arrivals placed relative to the interval (bursts, just before/after a scheduled run, during a run, idle gaps), with processing times; non-trivial = at least 3 arrivals; distinct = distinct trace signature",
		assumptions: []string{"spacing is measured from the instant a run was due: a start held back by the single worker being busy with another run is not the limiter's doing", "reload retries after a failed reload bypass the limiter by design and are C12's subject"},
		real:        []string{"pkg/utils/workqueue rate limiters and WorkQueue", "client-go rate-limiting/delaying queue", "controller-runtime controller worker loop (reconcile profile)"},
		stub:        []string{"reload / reconcile callbacks: recorders with generated processing time", "wall clock: testing/synctest fake clock"}}
	propMeta["C14"] = meta{rule: "batches profile (L0, 4 of 5 runs): 4..18 informer events over 7 kinds (several events about one object, ConfigMap deletions) delivered by one task per kind, 1..6 batch swaps by a reconciler task, interleaved at statement granularity by the tape; handoff-l2 profile (L2, 1 of 5 runs): the real controller with class changes and lease changes, every event the watchers accept must be in a batch some reconciliation takes, and every change description the watchers hold when a batch is taken must reach ReconcileIngress (half of the runs with reconciliations that fail and are retried); non-trivial = at least one accepted event and one swap (L0) or two reconciliations (L2); distinct = distinct trace signature",
		assumptions: []string{"watchers.go is instrumented with a yield before every statement and a scheduler-aware mutex; exactly one task runs at a time", "porcupine decides linearizability of the put/take-all history against a multiset accumulator; Unknown (timeout) is harness trouble, never a verdict"},
		real:        []string{"pkg/controller/reconciler watchers: handlers, predicates, compose/notify, getChangedObjects/initCh"},
		stub:        []string{"validator (class membership read from the object)", "reconcile queue: recorder", "informers: scheduler-owned tasks"}}
	propMeta["C03"] = l2("routing, routing-static and routing-dup-owner profiles (the last one: histories in which a twice-declared host/path changes owner, under the narrowed constraint dup_paths_exclusive_service): after every sync point ~100..400 requests (declared paths and their neighbours, both schemes, host case/port variants, unknown hosts) are evaluated on the written files and on the running HAProxy and compared with a reference router written from the Ingress specification; non-trivial = at least 2 reconciliations and 2 router comparisons; distinct = distinct trace signature",
		"the request evaluator interprets the frontend/backend rules HAProxy would run (map converters, use_backend, redirects, denies); an unmodelled construct is harness trouble (exit 2), never a verdict",
		"the reference accepts either rule when one path is declared with two non-exact types, and ready+terminating endpoints as drained")
	propMeta["C04"] = meta{rule: "each run = one path-type-order permutation and 2..16 (host, path, type) rules fed to the real map builder, whose internal map iteration is decided by the tape; every declared path and its neighbours is looked up on declared and foreign hosts; non-trivial = every run (a rule set was compared); distinct = distinct trace signature",
		assumptions: []string{"lookup semantics of map_str/map_beg/map_dir/map_reg (first file that answers wins) are re-implemented in the harness"},
		real:        []string{"pkg/haproxy/types maps.go (CreateMaps, AddHostnamePathMapping, MatchFiles/rebuildMatchFiles), hosts.go, backends.go"},
		stub:        []string{"HAProxy map lookup: harness evaluator"}}
	propMeta["C08"] = l2("class profile: worlds with class annotations, spec.ingressClassName, IngressClass objects (own and foreign controller, parameters), watch-ingress-without-class, controller class flags; the real IsValidIngress predicate is compared with a reference predicate for every ingress, and every host/certificate in the written configuration must be attributable to a selected ingress; non-trivial = at least 2 reconciliations and 2 comparisons; distinct = distinct trace signature")
	propMeta["C15"] = l2("tls profile: for every declared host and a few undeclared ones the certificate HAProxy would present for that SNI (crt-list lookup, exact then wildcard then default) is compared with the secret the oldest declaring ingress names, on files and on the running state after set/commit ssl cert; non-trivial = at least 2 reconciliations and 2 comparisons; distinct = distinct trace signature",
		"certificates are compared by key-pair identity, never by file name")
	propMeta["C18"] = l2("auth, auth-svc, auth-svcann (declarations on Services) and auth-oauth (published oauth2 proxy that moves) profiles: auth-url (well-formed, malformed, dangling, svc://), oauth, both placements, auth-proxy ranges of 1, 2 and 5 ports or default, external-has-lua on/off; every request that the reference router gives to a rule of an ingress declaring authentication must be denied or pass lua.auth-intercept, and an intercept must reach the servers the declared auth-url resolves to; non-trivial = a protected request was judged after at least 2 reconciliations; distinct = distinct trace signature",
		"requests that reach a backend other than the one their declaration names are routing matters (C03) and not judged here",
		"the authentication target is not checked for requests that fell to the default host (they are resolved again inside the backend and may match another ingress' host rule)")
	propMeta["C06"] = l2("order and order-history profiles; every sync point runs one canonical and four order-permuted fresh pipelines on the same stores; non-trivial = at least one permuted pipeline really iterated some map in another order; distinct = distinct trace signature",
		"normal-form rules as for C01; sequence-numbered names (_auth_backendNNN, auth proxy ports, path ids, server slots) are replaced by what they stand for")
	propMeta["C09"] = l2("xns, xns-projection and xns-gateway (Gateway API routes over annotated Services) profiles: ingress and service annotations and spec.tls secretNames with ns/name and secret://ns/name references to both namespaces, the four cross-namespace keys drawn among allow, deny, invalid and absent, changed during the history, --allow-cross-namespace on in 1 of 8 runs (then nothing is asserted); non-trivial = a state with at least one denied cross-namespace reference was judged after an incremental update; distinct = distinct trace signature",
		"a class is closed unless its key reads allow (case-insensitive), as documented; nothing is asserted when the command-line override is on",
		"the long-running controller is only charged when its files equal those of a pipeline with every permission open (other differences are C01's subject)")
	propMeta["C10"] = l2("gateway profile: Gateway API v1 objects (classes of this controller, of another one and of a sibling instance; listeners of both protocols; backendRefs into other namespaces) and, in half of the runs, a companion Ingress (HTTP or TCP service) on hosts and ports the routes use; non-trivial = at least one route was admitted and the state was judged after an incremental update; distinct = distinct trace signature",
		"allowedRoutes and namespaces.from are never nil (the CRD defaults fill them); metadata.generation is bumped on every spec change as the API server does",
		"listeners without TLS; HTTP listeners use the global bind port as documented")
	propMeta["C17"] = meta{rule: "acme profile: each run = a world of ingresses (cert-signer / tls-acme), secrets in chosen states and 4..40 operations (ingress and secret changes, external checks, lease changes, clock advances of minutes to days), then faults stop, a day and the longest back-off pass; non-trivial = a certificate was wanted, the instance asked the queue for it and at least 2 reconciliations ran; distinct = distinct trace signature",
		assumptions: []string{"the ACME account is complete and constant (emails, endpoint, terms agreed)", "leadership is a harness flag; the injected seam starts/stops the leader-only acme client and notifies the subscribers as svcLeader does", "a worker may finish the items that were ready when the lease was lost (each at most once)", "a certificate that enters the expiry window is due at the next periodic check", "metadata.generation of Ingress is bumped on every spec change as the API server does"},
		real:        append(append([]string{}, realL2...), "pkg/acme signer (verify, storage of the result)", "pkg/controller/services svcAcmeClient and its work queue, acme periodic/external check", "pkg/haproxy instance AcmeUpdate/AcmeCheck, hatypes.AcmeStorages"),
		stub:        append(append([]string{}, stubL2...), "ACME protocol client (Client.Sign): issues a certificate for the requested names, or fails on injected faults", "leader election: harness flag through an injected seam (no API server to hold a lease against)", "acme challenge responder (unix socket server): not started")}
	propMeta["C12"] = l2("churn histories with disk/socket/reload/API faults, then faults stop and no further cluster change happens; non-trivial = at least one fault fired and the convergence check ran; distinct = distinct trace signature")
}
