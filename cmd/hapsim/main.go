// hapsim is the driver of the deterministic simulation checks.
//
//	hapsim check <PROP> [--tier quick|thorough] [--seed N] [--runs N] [--procs N] [--budget SECONDS]
//	hapsim replay <file>
//	hapsim run <PROP> --seeds FIRST:COUNT [--profile NAME] [--trace]      (development)
//	hapsim build                                                          (prepare the binary, print its directory)
//	hapsim selftest-determinism <PROP> [--seeds FIRST:COUNT]
//
// Every command rebuilds the simulation binary from /repo's current working
// tree: scratch copy -> source instrumentation -> harness injected -> go test -c
// with go1.26.8. Builds are cached by a hash of the tree and of the harness.
//
// Exit codes: 0 property held on everything explored; 1 violation (a line
// "VIOLATION property=<id> replay=<path>" is printed); 2 harness trouble.
package main

import (
	"bufio"
	"bytes"
	"crypto/sha256"
	"encoding/hex"
	"encoding/json"
	"flag"
	"fmt"
	"io"
	"io/fs"
	"os"
	"os/exec"
	"path/filepath"
	"regexp"
	"runtime"
	"sort"
	"strconv"
	"strings"
	"sync"
	"time"
)

var maxMinimise = func() int { n, _ := strconv.Atoi(envOr("HAPSIM_MAXMIN", "3")); return n }()

// outDir receives evidence and replay files (default: verifDir); experiments on
// modified copies of the repository set HAPSIM_OUT_DIR to keep /verif untouched.
var outDir = envOr("HAPSIM_OUT_DIR", envOr("HAPSIM_VERIF", "/verif"))

var (
	verifDir = envOr("HAPSIM_VERIF", "/verif")
	repoDir  = envOr("HAPSIM_REPO", "/repo")
	goBin    = "/opt/veriftools/go1.26.8/bin"
)

func envOr(k, d string) string {
	if v := os.Getenv(k); v != "" {
		return v
	}
	return d
}

// scratchDirs are removed on every way out, os.Exit included.
var scratchDirs []string

func trouble(format string, a ...any) {
	fmt.Fprintf(os.Stderr, "hapsim: "+format+"\n", a...)
	for _, d := range scratchDirs {
		os.RemoveAll(d)
	}
	os.Exit(2)
}

func goEnv() []string {
	return append(os.Environ(), "CGO_ENABLED=0")
}

// ---------------------------------------------------------------------------
// build

func hashTree(h io.Writer, root string, include func(rel string, d fs.DirEntry) bool) {
	var files []string
	filepath.WalkDir(root, func(p string, d fs.DirEntry, err error) error {
		if err != nil {
			return nil
		}
		rel, _ := filepath.Rel(root, p)
		if d.IsDir() {
			if rel != "." && !include(rel, d) {
				return filepath.SkipDir
			}
			return nil
		}
		if include(rel, d) {
			files = append(files, rel)
		}
		return nil
	})
	sort.Strings(files)
	for _, f := range files {
		data, err := os.ReadFile(filepath.Join(root, f))
		if err != nil {
			continue
		}
		fmt.Fprintf(h, "%s\x00%d\x00", f, len(data))
		h.Write(data)
	}
}

func repoInclude(rel string, d fs.DirEntry) bool {
	top := strings.Split(rel, string(filepath.Separator))[0]
	switch top {
	case ".git", "docs", "tests", "examples", "builder", "CHANGELOG", "CHANGELOG.md":
		return false
	}
	return true
}

func buildKey() string {
	h := sha256.New()
	hashTree(h, repoDir, repoInclude)
	for _, sub := range []string{"harness", "simrt", "inject", "instrument"} {
		hashTree(h, filepath.Join(verifDir, sub), func(string, fs.DirEntry) bool { return true })
	}
	return hex.EncodeToString(h.Sum(nil))[:20]
}

// prepare returns the directory holding hapsim.test and the template files.
func prepare(quiet bool) string {
	key := buildKey()
	cacheRoot := filepath.Join(verifDir, ".cache")
	dir := filepath.Join(cacheRoot, key)
	if _, err := os.Stat(filepath.Join(dir, "ok")); err == nil && binaryWorks(dir) {
		os.Chtimes(dir, time.Now(), time.Now())
		return dir
	}
	// one builder at a time
	os.MkdirAll(cacheRoot, 0755)
	lock := filepath.Join(cacheRoot, "build.lock")
	for i := 0; ; i++ {
		f, err := os.OpenFile(lock, os.O_CREATE|os.O_EXCL|os.O_WRONLY, 0644)
		if err == nil {
			fmt.Fprintf(f, "%d", os.Getpid())
			f.Close()
			break
		}
		if st, err := os.Stat(lock); err == nil && time.Since(st.ModTime()) > 15*time.Minute {
			os.Remove(lock)
			continue
		}
		if b, err := os.ReadFile(lock); err == nil {
			if pid, err := strconv.Atoi(strings.TrimSpace(string(b))); err == nil {
				if _, err := os.Stat(fmt.Sprintf("/proc/%d", pid)); err != nil {
					os.Remove(lock) // the builder died
					continue
				}
			}
		}
		time.Sleep(500 * time.Millisecond)
		if _, err := os.Stat(filepath.Join(dir, "ok")); err == nil {
			return dir
		}
		if i > 3600 {
			trouble("timed out waiting for the build lock")
		}
	}
	defer os.Remove(lock)
	if _, err := os.Stat(filepath.Join(dir, "ok")); err == nil && binaryWorks(dir) {
		return dir
	}
	start := time.Now()
	scratchBase := "/dev/shm"
	if st, err := os.Stat(scratchBase); err != nil || !st.IsDir() {
		scratchBase = os.TempDir()
	}
	scratch, err := os.MkdirTemp(scratchBase, "hapsim-build-")
	if err != nil {
		trouble("scratch: %v", err)
	}
	defer os.RemoveAll(scratch)
	scratchDirs = append(scratchDirs, scratch)
	run := func(dir string, name string, args ...string) {
		cmd := exec.Command(name, args...)
		cmd.Dir = dir
		cmd.Env = goEnv()
		out, err := cmd.CombinedOutput()
		if err != nil {
			trouble("%s %s failed: %v\n%s", name, strings.Join(args, " "), err, tail(string(out), 6000))
		}
		if !quiet && len(out) > 0 && name != "rsync" {
			fmt.Fprint(os.Stderr, tail(string(out), 2000))
		}
	}
	run("/", "rsync", "-a", "--exclude", ".git", "--exclude", "docs", "--exclude", "tests", "--exclude", "examples", repoDir+"/", scratch+"/")
	copyDir(filepath.Join(verifDir, "simrt"), filepath.Join(scratch, "zzsimrt"))
	instr := filepath.Join(verifDir, "bin", "hapsim-instrument")
	if _, err := os.Stat(instr); err != nil {
		trouble("%s missing: run ./setup.sh", instr)
	}
	run(scratch, instr, "-dir", scratch, "-yields", "-report", filepath.Join(scratch, "instrument.json"))
	copyDir(filepath.Join(verifDir, "harness"), filepath.Join(scratch, "zzhapsim"))
	// injected export files (I5): <verif>/inject/<pkg path with __>/file.go
	injectRoot := filepath.Join(verifDir, "inject")
	filepath.WalkDir(injectRoot, func(p string, d fs.DirEntry, err error) error {
		if err != nil || d.IsDir() || !strings.HasSuffix(p, ".go") {
			return nil
		}
		rel, _ := filepath.Rel(injectRoot, p)
		dst := filepath.Join(scratch, rel)
		data, _ := os.ReadFile(p)
		os.MkdirAll(filepath.Dir(dst), 0755)
		os.WriteFile(dst, data, 0644)
		return nil
	})
	// porcupine for the C14 linearizability oracle
	run(scratch, "go", "mod", "edit", "-require=github.com/anishathalye/porcupine@v1.3.0")
	tmpOut := filepath.Join(scratch, "hapsim.test")
	run(scratch, "go", "test", "-c", "-tags", "verif", "-o", tmpOut, "./zzhapsim/")
	os.RemoveAll(dir)
	if err := os.MkdirAll(filepath.Join(dir, "rootfs", "etc"), 0755); err != nil {
		trouble("%v", err)
	}
	run("/", "cp", tmpOut, filepath.Join(dir, "hapsim.test.tmp"))
	if err := os.Rename(filepath.Join(dir, "hapsim.test.tmp"), filepath.Join(dir, "hapsim.test")); err != nil {
		trouble("%v", err)
	}
	run("/", "cp", "-r", filepath.Join(scratch, "rootfs", "etc", "templates"), filepath.Join(dir, "rootfs", "etc", "templates"))
	run("/", "cp", filepath.Join(scratch, "instrument.json"), filepath.Join(dir, "instrument.json"))
	os.WriteFile(filepath.Join(dir, "ok"), []byte(time.Now().Format(time.RFC3339)), 0644)
	pruneCache(cacheRoot, dir)
	if !quiet {
		fmt.Fprintf(os.Stderr, "hapsim: built simulation binary in %.0fs (%s)\n", time.Since(start).Seconds(), key)
	}
	return dir
}

// binaryWorks runs the cached test binary with an empty test selection: a
// truncated or damaged file is rebuilt instead of being trusted.
func binaryWorks(dir string) bool {
	cmd := exec.Command(filepath.Join(dir, "hapsim.test"), "-test.run", "^$")
	cmd.Dir = dir
	return cmd.Run() == nil
}

func pruneCache(root, keep string) {
	ents, _ := os.ReadDir(root)
	type e struct {
		p string
		t time.Time
	}
	var dirs []e
	for _, en := range ents {
		if !en.IsDir() {
			continue
		}
		p := filepath.Join(root, en.Name())
		if p == keep {
			continue
		}
		st, err := os.Stat(p)
		if err != nil {
			continue
		}
		dirs = append(dirs, e{p, st.ModTime()})
	}
	sort.Slice(dirs, func(i, j int) bool { return dirs[i].t.After(dirs[j].t) })
	for i, d := range dirs {
		if i >= 8 && time.Since(d.t) > 2*time.Hour {
			os.RemoveAll(d.p)
		}
	}
}

func copyDir(src, dst string) {
	os.MkdirAll(dst, 0755)
	ents, err := os.ReadDir(src)
	if err != nil {
		trouble("%v", err)
	}
	for _, e := range ents {
		if e.IsDir() || !strings.HasSuffix(e.Name(), ".go") {
			continue
		}
		data, err := os.ReadFile(filepath.Join(src, e.Name()))
		if err != nil {
			trouble("%v", err)
		}
		if err := os.WriteFile(filepath.Join(dst, e.Name()), data, 0644); err != nil {
			trouble("%v", err)
		}
	}
}

func tail(s string, n int) string {
	if len(s) > n {
		return "..." + s[len(s)-n:]
	}
	return s
}

// ---------------------------------------------------------------------------
// results

type Violation struct {
	Property string `json:"property"`
	Oracle   string `json:"oracle"`
	Class    string `json:"class"`
	Witness  string `json:"witness"`
	Step     int    `json:"step"`
}

type Result struct {
	Property   string           `json:"property"`
	Profile    string           `json:"profile"`
	Seed       uint64           `json:"seed"`
	Verdict    string           `json:"verdict"`
	Violations []*Violation     `json:"violations,omitempty"`
	Error      string           `json:"error,omitempty"`
	Probes     map[string]int   `json:"probes,omitempty"`
	Stats      map[string]int   `json:"stats,omitempty"`
	Faults     []string         `json:"faults,omitempty"`
	SimTimeS   float64          `json:"sim_time_s"`
	WallMs     int64            `json:"wall_ms"`
	Ops        int              `json:"ops"`
	Reconciles int              `json:"reconciles"`
	Draws      int              `json:"draws"`
	NFHashes   []string         `json:"nf_hashes,omitempty"`
	TraceSig   string           `json:"trace_sig"`
	Nontrivial bool             `json:"nontrivial"`
	Config     json.RawMessage  `json:"config,omitempty"`
	Tape       map[string][]int `json:"tape,omitempty"`
	Trace      []string         `json:"trace,omitempty"`
	Summary    []string         `json:"summary,omitempty"`
}

type ReplayFile struct {
	Property  string           `json:"property"`
	Profile   string           `json:"profile"`
	Seed      uint64           `json:"seed"`
	Tier      string           `json:"tier"`
	Violation *Violation       `json:"violation"`
	Config    json.RawMessage  `json:"config"`
	Tape      map[string][]int `json:"tape"`
	Note      string           `json:"note,omitempty"`
}

// runSim executes the simulation binary with the given environment and returns the results.
func runSim(binDir string, env map[string]string, timeout time.Duration) ([]*Result, string, error) {
	cmd := exec.Command(filepath.Join(binDir, "hapsim.test"), "-test.run", "^TestSim$", "-test.timeout", "0")
	cmd.Dir = binDir
	cmd.Env = append(os.Environ(), "GOMAXPROCS="+envOr("HAPSIM_GOMAXPROCS", "2"))
	for k, v := range env {
		cmd.Env = append(cmd.Env, k+"="+v)
	}
	var stdout, stderr bytes.Buffer
	cmd.Stdout = &stdout
	cmd.Stderr = &stderr
	if err := cmd.Start(); err != nil {
		return nil, "", err
	}
	done := make(chan error, 1)
	go func() { done <- cmd.Wait() }()
	var werr error
	select {
	case werr = <-done:
	case <-time.After(timeout):
		cmd.Process.Kill()
		<-done
		werr = fmt.Errorf("watchdog: simulation process exceeded %s", timeout)
	}
	var results []*Result
	sc := bufio.NewScanner(&stdout)
	sc.Buffer(make([]byte, 1<<20), 1<<28)
	var other []string
	for sc.Scan() {
		line := sc.Text()
		if strings.HasPrefix(line, "{") {
			var r Result
			if err := json.Unmarshal([]byte(line), &r); err == nil {
				results = append(results, &r)
				continue
			}
		}
		other = append(other, line)
	}
	diag := strings.Join(other, "\n") + "\n" + stderr.String()
	return results, diag, werr
}

// ---------------------------------------------------------------------------
// known findings

type Finding struct {
	ID         string   `json:"id"`
	Properties []string `json:"properties"`
	Status     string   `json:"status"` // open | fixed
	// Replay is the committed history that demonstrates the finding (relative to /verif).
	Replay string `json:"replay,omitempty"`
	// Avoid is the generator constraint that keeps the exploration away from the
	// finding's trigger, so that other violations of the property are still found.
	Avoid       string `json:"avoid,omitempty"`
	Class       string `json:"class,omitempty"` // prefix of the violation class
	Match       string `json:"match,omitempty"` // regexp over the witness ("" = any)
	Description string `json:"description"`
	Commit      string `json:"commit,omitempty"`
}

func (f *Finding) appliesTo(prop string) bool {
	for _, p := range f.Properties {
		if p == prop {
			return true
		}
	}
	return false
}

func loadFindings() []Finding {
	data, err := os.ReadFile(filepath.Join(verifDir, "known_findings.json"))
	if err != nil {
		return nil
	}
	var f struct {
		Findings []Finding `json:"findings"`
	}
	if err := json.Unmarshal(data, &f); err != nil {
		trouble("known_findings.json: %v", err)
	}
	return f.Findings
}

func matchFinding(fs []Finding, v *Violation) *Finding {
	for i := range fs {
		f := &fs[i]
		if f.Status != "open" || !f.appliesTo(v.Property) || (f.Class == "" && f.Match == "") {
			continue
		}
		if f.Class != "" && !strings.HasPrefix(v.Class, f.Class) {
			continue
		}
		if f.Match != "" {
			re, err := regexp.Compile(f.Match)
			if err != nil || !re.MatchString(v.Witness) {
				continue
			}
		}
		return f
	}
	return nil
}

// ---------------------------------------------------------------------------
// check

type tierSpec struct {
	runs   int
	budget int // wall seconds for the exploration phase
}

func tierFor(prop, tier string) tierSpec {
	light := prop == "C13" || prop == "C14" || prop == "C04" || prop == "C17"
	if tier == "thorough" {
		if light {
			return tierSpec{runs: 400000, budget: 900}
		}
		return tierSpec{runs: 120000, budget: 1500}
	}
	if light {
		return tierSpec{runs: 20000, budget: 90}
	}
	return tierSpec{runs: 6000, budget: 110}
}

func splitmix(x uint64) uint64 {
	x += 0x9e3779b97f4a7c15
	x = (x ^ (x >> 30)) * 0xbf58476d1ce4e5b9
	x = (x ^ (x >> 27)) * 0x94d049bb133111eb
	return x ^ (x >> 31)
}

func propSeedBase(seed uint64, prop string) uint64 {
	h := seed
	for _, c := range []byte(prop) {
		h = splitmix(h ^ uint64(c))
	}
	return h % (1 << 40)
}

func cmdCheck(args []string) {
	fl := flag.NewFlagSet("check", flag.ExitOnError)
	tier := fl.String("tier", envOr("VERIF_TIER", "quick"), "quick|thorough")
	seedS := fl.String("seed", envOr("VERIF_SEED", "1"), "seed")
	runs := fl.Int("runs", 0, "override the number of runs")
	procs := fl.Int("procs", runtime.NumCPU(), "worker processes")
	onlyProfile := fl.String("profile", "", "explore one profile only (experiments; the registered commands use all)")
	budget := fl.Int("budget", 0, "override the wall budget (s)")
	if len(args) < 1 {
		trouble("usage: hapsim check <PROP>")
	}
	prop := args[0]
	fl.Parse(args[1:])
	seed, err := strconv.ParseUint(*seedS, 10, 64)
	if err != nil {
		seed = 1
	}
	ts := tierFor(prop, *tier)
	if *runs > 0 {
		ts.runs = *runs
	}
	if *budget > 0 {
		ts.budget = *budget
	}
	start := time.Now()
	binDir := prepare(false)
	buildS := time.Since(start).Seconds()
	base := propSeedBase(seed, prop)
	findings := loadFindings()
	var avoid []string
	for _, f := range findings {
		if f.Status == "open" && f.Avoid != "" && f.appliesTo(prop) {
			avoid = append(avoid, f.Avoid)
		}
	}
	sort.Strings(avoid)
	exit := 0
	knownHit := map[string]int{}
	var reported []map[string]any
	// recorded findings first: every replay file tied to this property is re-run
	for i := range findings {
		f := &findings[i]
		if !f.appliesTo(prop) || f.Replay == "" {
			continue
		}
		data, err := os.ReadFile(filepath.Join(verifDir, f.Replay))
		if err != nil {
			trouble("finding %s: %v", f.ID, err)
		}
		var rf ReplayFile
		if err := json.Unmarshal(data, &rf); err != nil {
			trouble("finding %s: %v", f.ID, err)
		}
		res := replayResult(binDir, &rf, false)
		if res.Verdict == "harness_error" {
			trouble("finding %s: replay failed: %s", f.ID, tail(res.Error, 2000))
		}
		reproduces := len(res.Violations) > 0
		switch {
		case f.Status == "open" && reproduces:
			fmt.Printf("KNOWN-FINDING: property=%s %s: %s (replay=%s)\n", prop, f.ID, f.Description, filepath.Join(verifDir, f.Replay))
			knownHit[f.ID]++
		case f.Status == "open":
			fmt.Printf("hapsim: note: recorded finding %s no longer reproduces on this tree\n", f.ID)
		case reproduces:
			v := res.Violations[0]
			fmt.Printf("VIOLATION property=%s replay=%s\n  regression of fixed finding %s (%s)\n  class: %s\n  %s\n", prop, filepath.Join(verifDir, f.Replay), f.ID, f.Commit,
				v.Class, strings.ReplaceAll(v.Witness, "\n", "\n  "))
			reported = append(reported, map[string]any{"class": v.Class, "regression_of": f.ID, "replay": f.Replay, "witness": v.Witness})
			exit = 1
		}
	}

	// fan out: chunks of seeds, pulled by worker processes
	chunk := 25
	if ts.runs < *procs*chunk {
		chunk = (ts.runs + *procs - 1) / *procs
		if chunk < 1 {
			chunk = 1
		}
	}
	type job struct{ first, n int }
	jobs := make(chan job, ts.runs/chunk+2)
	for i := 0; i < ts.runs; i += chunk {
		n := chunk
		if i+n > ts.runs {
			n = ts.runs - i
		}
		jobs <- job{i, n}
	}
	close(jobs)
	var mu sync.Mutex
	var all []*Result
	var harnessErrs []string
	deadline := time.Now().Add(time.Duration(ts.budget) * time.Second)
	var wg sync.WaitGroup
	for w := 0; w < *procs; w++ {
		wg.Add(1)
		go func() {
			defer wg.Done()
			for j := range jobs {
				if time.Now().After(deadline) {
					return
				}
				env := map[string]string{"HAPSIM_PROP": prop, "HAPSIM_TIER": *tier, "HAPSIM_AVOID": strings.Join(avoid, ","),
					"HAPSIM_SEEDS": fmt.Sprintf("%d:%d", base+uint64(j.first), j.n)}
				if j.first == 0 {
					env["HAPSIM_SAMPLE"] = "1"
				}
				if *onlyProfile != "" {
					env["HAPSIM_PROFILE"] = *onlyProfile
				}
				res, diag, err := runSim(binDir, env, time.Duration(20*j.n+60)*time.Second)
				mu.Lock()
				all = append(all, res...)
				if err != nil || len(res) < j.n {
					harnessErrs = append(harnessErrs, fmt.Sprintf("seeds %d+%d: %v: %s", base+uint64(j.first), j.n, err, tail(diag, 1500)))
				}
				mu.Unlock()
			}
		}()
	}
	wg.Wait()
	exploreS := time.Since(start).Seconds() - buildS
	os.Setenv("HAPSIM_AVOID_USED", strings.Join(avoid, ","))
	sort.Slice(all, func(i, j int) bool { return all[i].Seed < all[j].Seed })

	var viols []*Result
	for _, r := range all {
		switch r.Verdict {
		case "violation":
			viols = append(viols, r)
		case "harness_error":
			harnessErrs = append(harnessErrs, fmt.Sprintf("seed %d (%s): %s", r.Seed, r.Profile, tail(r.Error, 1500)))
		}
	}
	// group violations by class; confirm, minimise and report the first of each class (at most 3 classes)
	byClass := map[string][]*Result{}
	var classes []string
	for _, r := range viols {
		c := r.Violations[0].Property + "|" + r.Violations[0].Class
		if byClass[c] == nil {
			classes = append(classes, c)
		}
		byClass[c] = append(byClass[c], r)
	}
	sort.Strings(classes)
	os.MkdirAll(filepath.Join(outDir, "replays"), 0755)
	nMin := 0
	for _, c := range classes {
		rs := byClass[c]
		r := rs[0]
		v := r.Violations[0]
		rf := &ReplayFile{Property: v.Property, Profile: r.Profile, Seed: r.Seed, Tier: *tier, Violation: v, Config: r.Config, Tape: r.Tape}
		// confirm in a fresh process
		ok, cv := replayOnce(binDir, rf)
		if !ok {
			harnessErrs = append(harnessErrs, fmt.Sprintf("seed %d: violation [%s] did not reproduce from its own tape (got %v): nondeterminism in the harness", r.Seed, v.Class, cv))
			continue
		}
		if nMin < maxMinimise {
			rf = minimise(binDir, rf, 60*time.Second)
			nMin++
		}
		kf := matchFinding(findings, rf.Violation)
		path := filepath.Join(outDir, "replays", fmt.Sprintf("%s-%d-%s.json", v.Property, r.Seed, sanitize(v.Class)))
		writeJSON(path, rf)
		rep := map[string]any{"class": v.Class, "seed": r.Seed, "profile": r.Profile, "count": len(rs), "replay": path, "witness": rf.Violation.Witness}
		if kf != nil {
			knownHit[kf.ID] += len(rs)
			fmt.Printf("KNOWN-FINDING: property=%s %s: %s (class %s, %d run(s), e.g. replay=%s)\n", v.Property, kf.ID, kf.Description, v.Class, len(rs), path)
			rep["known_finding"] = kf.Description
		} else {
			fmt.Printf("VIOLATION property=%s replay=%s\n", v.Property, path)
			fmt.Printf("  class: %s  (%d of %d runs)\n  %s\n", v.Class, len(rs), len(all), strings.ReplaceAll(rf.Violation.Witness, "\n", "\n  "))
			exit = 1
		}
		reported = append(reported, rep)
	}
	if len(harnessErrs) > 0 {
		for i, e := range harnessErrs {
			if i >= 5 {
				fmt.Fprintf(os.Stderr, "hapsim: ... %d more\n", len(harnessErrs)-i)
				break
			}
			fmt.Fprintf(os.Stderr, "hapsim: harness trouble: %s\n", e)
		}
	}
	writeEvidence(prop, *tier, seed, base, all, reported, knownHit, harnessErrs, buildS, exploreS, time.Since(start).Seconds(), binDir)
	if len(all) == 0 {
		trouble("no run completed")
	}
	if exit == 0 && len(harnessErrs) > 0 {
		os.Exit(2)
	}
	if exit == 0 {
		nt := 0
		for _, r := range all {
			if r.Nontrivial {
				nt++
			}
		}
		fmt.Printf("hapsim: %s held on %d runs (%d non-trivial), tier %s, seed %d, %.0fs\n", prop, len(all), nt, *tier, seed, time.Since(start).Seconds())
	}
	os.Exit(exit)
}

func sanitize(s string) string {
	return regexp.MustCompile(`[^A-Za-z0-9_.-]+`).ReplaceAllString(s, "_")
}

func writeJSON(path string, v any) {
	b, err := json.MarshalIndent(v, "", " ")
	if err != nil {
		trouble("%v", err)
	}
	if err := os.WriteFile(path, b, 0644); err != nil {
		trouble("%v", err)
	}
}

// replayOnce runs a replay file in a fresh process; ok when the same violation class shows.
func replayOnce(binDir string, rf *ReplayFile) (bool, []string) {
	tmp, err := os.CreateTemp("", "hapsim-replay-*.json")
	if err != nil {
		trouble("%v", err)
	}
	defer os.Remove(tmp.Name())
	b, _ := json.Marshal(rf)
	tmp.Write(b)
	tmp.Close()
	t0 := time.Now()
	// (confirmation and minimisation candidates must stay inside the generator constraints of the open findings)
	res, diag, err := runSim(binDir, map[string]string{"HAPSIM_REPLAY": tmp.Name(), "HAPSIM_VALIDATE_AVOID": "1"}, 40*time.Second)
	if d := time.Since(t0); d > 5*time.Second && os.Getenv("HAPSIM_DEBUG") != "" {
		keep := filepath.Join(os.TempDir(), fmt.Sprintf("hapsim-slow-%d.json", time.Now().UnixNano()))
		os.WriteFile(keep, b, 0644)
		fmt.Fprintf(os.Stderr, "hapsim: slow candidate %s (%s): %v %s\n", keep, d, err, tail(diag, 3000))
	}
	if err != nil || len(res) == 0 {
		return false, []string{fmt.Sprint(err)}
	}
	var got []string
	for _, v := range res[0].Violations {
		got = append(got, v.Class)
		if v.Property == rf.Violation.Property && v.Class == rf.Violation.Class {
			return true, got
		}
	}
	if res[0].Verdict == "harness_error" {
		got = append(got, "harness_error: "+tail(res[0].Error, 300))
	}
	return false, got
}

// replayResult runs a replay file and returns the full result.
func replayResult(binDir string, rf *ReplayFile, trace bool) *Result {
	tmp, err := os.CreateTemp("", "hapsim-replay-*.json")
	if err != nil {
		trouble("%v", err)
	}
	defer os.Remove(tmp.Name())
	b, _ := json.Marshal(rf)
	tmp.Write(b)
	tmp.Close()
	env := map[string]string{"HAPSIM_REPLAY": tmp.Name(), "HAPSIM_KEEPTAPE": "1"}
	if trace {
		env["HAPSIM_TRACE"] = "1"
	}
	res, diag, err := runSim(binDir, env, 90*time.Second)
	if err != nil || len(res) == 0 {
		return &Result{Verdict: "harness_error", Error: fmt.Sprintf("%v %s", err, tail(diag, 2000))}
	}
	return res[0]
}

// ---------------------------------------------------------------------------
// minimisation (delta debugging over operations, world objects and tape sites)

type runConfig struct {
	raw map[string]json.RawMessage
}

func parseCfg(raw json.RawMessage) map[string]json.RawMessage {
	m := map[string]json.RawMessage{}
	json.Unmarshal(raw, &m)
	return m
}

func encodeCfg(m map[string]json.RawMessage) json.RawMessage {
	b, _ := json.Marshal(m)
	return b
}

func minimise(binDir string, rf *ReplayFile, budget time.Duration) *ReplayFile {
	deadline := time.Now().Add(budget)
	same := func(c *ReplayFile) bool {
		ok, _ := replayOnce(binDir, c)
		return ok
	}
	cur := rf
	cfg := parseCfg(cur.Config)
	var ops []json.RawMessage
	json.Unmarshal(cfg["ops"], &ops)
	var world map[string]json.RawMessage
	json.Unmarshal(cfg["world"], &world)
	var objs []json.RawMessage
	json.Unmarshal(world["objects"], &objs)

	build := func(ops, objs []json.RawMessage, tape map[string][]int) *ReplayFile {
		c := map[string]json.RawMessage{}
		for k, v := range cfg {
			c[k] = v
		}
		ob, _ := json.Marshal(ops)
		c["ops"] = ob
		w := map[string]json.RawMessage{}
		for k, v := range world {
			w[k] = v
		}
		wb, _ := json.Marshal(objs)
		w["objects"] = wb
		wj, _ := json.Marshal(w)
		c["world"] = wj
		n := *cur
		n.Config = encodeCfg(c)
		n.Tape = tape
		return &n
	}
	tape := cur.Tape

	// 1. tape sites to zero, by group
	groups := []string{"map:", "midsched", "kube.list", "kube.initlist", "sched."}
	for _, g := range groups {
		if time.Now().After(deadline) {
			break
		}
		nt := map[string][]int{}
		dropped := false
		for k, v := range tape {
			if strings.HasPrefix(k, g) {
				dropped = true
				continue
			}
			nt[k] = v
		}
		if dropped && same(build(ops, objs, nt)) {
			tape = nt
		}
	}
	// 2. ddmin over a list, evaluated in parallel
	ddmin := func(items []json.RawMessage, mk func([]json.RawMessage) *ReplayFile, keepLast bool) []json.RawMessage {
		n := 2
		for len(items) >= 2 && time.Now().Before(deadline) {
			size := (len(items) + n - 1) / n
			type cand struct {
				items []json.RawMessage
				ok    bool
			}
			var cands []*cand
			for i := 0; i < len(items); i += size {
				j := i + size
				if j > len(items) {
					j = len(items)
				}
				if keepLast && j == len(items) && i+1 >= j {
					continue // never remove the final sync point alone... it is the check itself
				}
				rest := append(append([]json.RawMessage{}, items[:i]...), items[j:]...)
				if keepLast && j == len(items) {
					rest = append(rest, items[len(items)-1])
				}
				cands = append(cands, &cand{items: rest})
			}
			var wg sync.WaitGroup
			sem := make(chan struct{}, 12)
			for _, c := range cands {
				wg.Add(1)
				sem <- struct{}{}
				go func(c *cand) {
					defer wg.Done()
					defer func() { <-sem }()
					c.ok = same(mk(c.items))
				}(c)
			}
			wg.Wait()
			reduced := false
			for _, c := range cands {
				if c.ok && len(c.items) < len(items) {
					items = c.items
					n = max(n-1, 2)
					reduced = true
					break
				}
			}
			if !reduced {
				if n >= len(items) {
					break
				}
				n = min(n*2, len(items))
			}
		}
		return items
	}
	ops = ddmin(ops, func(o []json.RawMessage) *ReplayFile { return build(o, objs, tape) }, true)
	objs = ddmin(objs, func(o []json.RawMessage) *ReplayFile { return build(ops, o, tape) }, false)
	ops = ddmin(ops, func(o []json.RawMessage) *ReplayFile { return build(o, objs, tape) }, true)
	// 3. remaining tape sites one by one
	for _, k := range sortedKeys(tape) {
		if time.Now().After(deadline) {
			break
		}
		nt := map[string][]int{}
		for k2, v := range tape {
			if k2 != k {
				nt[k2] = v
			}
		}
		if same(build(ops, objs, nt)) {
			tape = nt
		}
	}
	out := build(ops, objs, tape)
	// final confirmation + refresh of the witness text
	res := replayResult(binDir, out, false)
	for _, v := range res.Violations {
		if v.Property == rf.Violation.Property && v.Class == rf.Violation.Class {
			out.Violation = v
			out.Note = fmt.Sprintf("minimised from %d to %d operations and %d world objects", lenOps(rf), len(ops), len(objs))
			return out
		}
	}
	return rf
}

func lenOps(rf *ReplayFile) int {
	var ops []json.RawMessage
	json.Unmarshal(parseCfg(rf.Config)["ops"], &ops)
	return len(ops)
}

func sortedKeys[V any](m map[string]V) []string {
	keys := make([]string, 0, len(m))
	for k := range m {
		keys = append(keys, k)
	}
	sort.Strings(keys)
	return keys
}

// ---------------------------------------------------------------------------
// evidence

func writeEvidence(prop, tier string, seed, base uint64, all []*Result, reported []map[string]any, knownHit map[string]int,
	harnessErrs []string, buildS, exploreS, wallS float64, binDir string) {
	probes := map[string]int{}
	stats := map[string]int{}
	faults := map[string]int{}
	profiles := map[string]int{}
	sigs := map[string]bool{}
	nfs := map[string]bool{}
	var simTime float64
	nViol, nOK, nontrivial, recs, draws := 0, 0, 0, 0, 0
	var samples []any
	for _, r := range all {
		for k, v := range r.Probes {
			probes[k] += v
		}
		for k, v := range r.Stats {
			stats[k] += v
		}
		for _, f := range r.Faults {
			faults[f]++
		}
		profiles[r.Profile]++
		simTime += r.SimTimeS
		recs += r.Reconciles
		draws += r.Draws
		for _, h := range r.NFHashes {
			nfs[h] = true
		}
		switch r.Verdict {
		case "ok":
			nOK++
		case "violation":
			nViol++
		}
		if r.Nontrivial && !sigs[r.TraceSig] {
			sigs[r.TraceSig] = true
			nontrivial++
		}
		if len(samples) < 3 && r.Nontrivial && len(r.Summary) > 0 {
			samples = append(samples, map[string]any{"seed": r.Seed, "profile": r.Profile, "verdict": r.Verdict, "reconciles": r.Reconciles,
				"sim_time_s": r.SimTimeS, "faults": r.Faults, "run": r.Summary})
		}
	}
	if len(samples) == 0 {
		for _, r := range all {
			if len(r.Summary) > 0 {
				samples = append(samples, map[string]any{"seed": r.Seed, "profile": r.Profile, "verdict": r.Verdict, "run": r.Summary})
				break
			}
		}
	}
	var instr any
	if b, err := os.ReadFile(filepath.Join(binDir, "instrument.json")); err == nil {
		var m map[string]any
		if json.Unmarshal(b, &m) == nil {
			instr = m["sites"]
		}
	}
	meta := propMeta[prop]
	ev := map[string]any{
		"property_id": prop,
		"tier":        tier,
		"seed":        int64(seed),
		"level":       "exploration",
		"wall_s":      wallS,
		"violations":  nViol,
		"assumptions": append([]string{
			"SimKube models informers as per-kind FIFO store updates and notifications that lag the API; cross-kind order, list order and delivery times are seeded choices",
			"SimHAProxy loads what `haproxy -f <dir>` would load and implements the runtime commands the controller sends with HAProxy's reply strings; its parser/evaluator of the rendered configuration is trusted",
			"the external-HAProxy deployment mode (--master-socket) is simulated; embedded modes exec haproxy and are out of reach",
			"source rewrites (os.*, net.Dial/Lookup*, range-over-map, gates) are semantics preserving: the repository's tests pass on the instrumented copy",
		}, meta.assumptions...),
		"coverage": map[string]any{
			"evaluations":         len(all),
			"distinct_nontrivial": nontrivial,
			"rule":                meta.rule,
			"samples":             samples,
			"runs_ok":             nOK,
			"runs_with_violation": nViol,
			"harness_errors":      len(harnessErrs),
			"profiles":            profiles,
			"seed_first":          base,
			"seed_last":           base + uint64(max(len(all)-1, 0)),
			"runs_per_hour":       float64(len(all)) / max(exploreS, 0.001) * 3600,
			"sim_time_s":          simTime,
			"reconciliations":     recs,
			"choices_drawn":       draws,
			"faults_fired":        faults,
			"reach_probes":        probes,
			"seam_stats":          stats,
			"distinct_states":     len(nfs),
			"distinct_measure":    "distinct_nontrivial counts distinct trace signatures (hash of reach-probe counts and fired faults) among non-trivial runs; distinct_states counts distinct normal-form hashes of fresh-oracle configurations",
			"components": map[string]any{
				"real": meta.real,
				"stub": meta.stub,
			},
			"instrumentation_sites": instr,
			"reported":              reported,
			"known_findings_hit":    knownHit,
			"avoid_constraints":     os.Getenv("HAPSIM_AVOID_USED"),
			"build_s":               buildS,
			"explore_s":             exploreS,
		},
	}
	os.MkdirAll(filepath.Join(outDir, "evidence"), 0755)
	writeJSON(filepath.Join(outDir, "evidence", prop+".json"), ev)
}

// ---------------------------------------------------------------------------
// other commands

func cmdReplay(args []string) {
	if len(args) < 1 {
		trouble("usage: hapsim replay <file>")
	}
	trace := len(args) > 1 && args[1] == "--trace"
	data, err := os.ReadFile(args[0])
	if err != nil {
		trouble("%v", err)
	}
	var rf ReplayFile
	if err := json.Unmarshal(data, &rf); err != nil {
		trouble("%v", err)
	}
	binDir := prepare(false)
	res := replayResult(binDir, &rf, trace)
	if trace {
		for _, l := range res.Trace {
			fmt.Println(l)
		}
	}
	if res.Verdict == "harness_error" {
		trouble("replay: %s", res.Error)
	}
	for _, v := range res.Violations {
		if v.Property == rf.Violation.Property && v.Class == rf.Violation.Class {
			fmt.Printf("VIOLATION property=%s replay=%s\n  class: %s\n  %s\n", v.Property, args[0], v.Class, strings.ReplaceAll(v.Witness, "\n", "\n  "))
			os.Exit(1)
		}
	}
	if len(res.Violations) > 0 {
		v := res.Violations[0]
		fmt.Printf("VIOLATION property=%s replay=%s\n  (a different class than recorded: %s)\n  %s\n", v.Property, args[0], v.Class, v.Witness)
		os.Exit(1)
	}
	fmt.Printf("hapsim: replay of %s: the recorded violation [%s] does not occur on this tree\n", args[0], rf.Violation.Class)
}

func cmdRun(args []string) {
	fl := flag.NewFlagSet("run", flag.ExitOnError)
	seeds := fl.String("seeds", "1:10", "first:count")
	profile := fl.String("profile", "", "profile")
	trace := fl.Bool("trace", false, "trace")
	tier := fl.String("tier", "quick", "tier")
	full := fl.Bool("json", false, "raw JSON")
	prop := args[0]
	fl.Parse(args[1:])
	binDir := prepare(false)
	env := map[string]string{"HAPSIM_PROP": prop, "HAPSIM_SEEDS": *seeds, "HAPSIM_TIER": *tier}
	if *profile != "" {
		env["HAPSIM_PROFILE"] = *profile
	}
	if *trace {
		env["HAPSIM_TRACE"] = "1"
	}
	res, diag, err := runSim(binDir, env, time.Hour)
	for _, r := range res {
		if *full {
			b, _ := json.Marshal(r)
			fmt.Println(string(b))
			continue
		}
		if *trace {
			for _, l := range r.Trace {
				fmt.Println(l)
			}
		}
		fmt.Printf("seed=%d profile=%s verdict=%s wall=%dms sim=%.0fs rec=%d ops=%d nontrivial=%v\n", r.Seed, r.Profile, r.Verdict, r.WallMs, r.SimTimeS, r.Reconciles, r.Ops, r.Nontrivial)
		for _, v := range r.Violations {
			fmt.Printf("   %s [%s] step %d: %s\n", v.Property, v.Class, v.Step, v.Witness)
		}
		if r.Error != "" {
			fmt.Printf("   error: %s\n", tail(r.Error, 3000))
		}
	}
	if err != nil {
		fmt.Fprintf(os.Stderr, "%v\n%s\n", err, tail(diag, 4000))
		os.Exit(2)
	}
}

var certSerialRe = regexp.MustCompile(`\.hapsim#[0-9]+|hapsim-ca#[0-9]+`)

// digest is the signature of one run: its trace up to the final sync point, verdict and probes.
func digest(r *Result) string {
	h := sha256.New()
	for _, l := range r.Trace {
		if strings.Contains(l, "SYNC POINT final") {
			break // what follows is the teardown of the controller (log lines of parallel shutdowns)
		}
		if strings.Contains(l, `"msg"="enqueue reconciliation due to leader acquired"`) || strings.Contains(l, `log services/acme/client`) {
			continue // log lines of the goroutines a lease change starts in parallel
		}
		if strings.Contains(l, `"msg"="Starting EventSource"`) {
			// controller-runtime starts its sources from parallel goroutines; only the order
			// of these log lines depends on it (handlers are driven by SimKube, kind by kind)
			continue
		}
		// (certificates are generated once per process: their serial numbers, which witnesses quote, differ between processes)
		h.Write([]byte(certSerialRe.ReplaceAllString(l, "#N")))
		h.Write([]byte{'\n'})
	}
	fmt.Fprintf(h, "%s %v", r.Verdict, r.Probes)
	return hex.EncodeToString(h.Sum(nil))[:16]
}

// selftest-determinism: every seed twice per GOMAXPROCS setting; trace signatures and verdicts must agree.
func cmdDeterminism(args []string) {
	fl := flag.NewFlagSet("det", flag.ExitOnError)
	seeds := fl.String("seeds", "1:40", "first:count")
	prop := args[0]
	fl.Parse(args[1:])
	binDir := prepare(false)
	type key struct {
		seed uint64
	}
	ref := map[uint64]string{}
	bad := 0
	total := 0
	for _, gmp := range []string{"1", "4", "16"} {
		for rep := 0; rep < 2; rep++ {
			os.Setenv("HAPSIM_GOMAXPROCS", gmp)
			res, diag, err := runSim(binDir, map[string]string{"HAPSIM_PROP": prop, "HAPSIM_SEEDS": *seeds, "HAPSIM_TRACE": "1"}, time.Hour)
			if err != nil {
				trouble("%v %s", err, tail(diag, 2000))
			}
			for _, r := range res {
				d := digest(r)
				total++
				if prev, ok := ref[r.Seed]; ok {
					if prev != d {
						bad++
						fmt.Printf("NONDETERMINISM seed=%d GOMAXPROCS=%s rep=%d\n", r.Seed, gmp, rep)
					}
				} else {
					ref[r.Seed] = d
				}
			}
		}
	}
	// a run must not depend on what ran before it in the same process: a sample of the seeds alone, and the
	// whole range again starting in the middle
	first, count := uint64(1), 40
	fmt.Sscanf(*seeds, "%d:%d", &first, &count)
	var variants []string
	for i := 0; i < count && i < 6; i++ {
		variants = append(variants, fmt.Sprintf("%d:1", first+uint64(i*7%count)))
	}
	if count > 2 {
		variants = append(variants, fmt.Sprintf("%d:%d", first+uint64(count/2), count-count/2))
	}
	os.Setenv("HAPSIM_GOMAXPROCS", "4")
	for _, v := range variants {
		res, diag, err := runSim(binDir, map[string]string{"HAPSIM_PROP": prop, "HAPSIM_SEEDS": v, "HAPSIM_TRACE": "1"}, time.Hour)
		if err != nil {
			trouble("%v %s", err, tail(diag, 2000))
		}
		for _, r := range res {
			d := digest(r)
			total++
			if prev, ok := ref[r.Seed]; ok && prev != d {
				bad++
				fmt.Printf("NONDETERMINISM seed=%d depends on the runs before it in the process (seeds %s)\n", r.Seed, v)
			}
		}
	}
	fmt.Printf("determinism: %d executions of %d seeds, %d divergent\n", total, len(ref), bad)
	if bad > 0 {
		os.Exit(2)
	}
}

func main() {
	os.Setenv("PATH", goBin+":"+os.Getenv("PATH"))
	for _, kv := range []string{"GOFLAGS=-mod=mod", "GOPROXY=off", "GOSUMDB=off", "GOTOOLCHAIN=local"} {
		k, v, _ := strings.Cut(kv, "=")
		os.Setenv(k, v)
	}
	if len(os.Args) < 2 {
		trouble("usage: hapsim check|replay|run|build ...")
	}
	switch os.Args[1] {
	case "check":
		cmdCheck(os.Args[2:])
	case "replay":
		cmdReplay(os.Args[2:])
	case "run":
		cmdRun(os.Args[2:])
	case "build":
		fmt.Println(prepare(false))
	case "selftest-determinism":
		cmdDeterminism(os.Args[2:])
	default:
		trouble("unknown command %s", os.Args[1])
	}
}
