// Package zzsimrt is the run-time half of the hapsim seams. It is copied into the
// scratch copy of the repository (never into /repo) and is imported both by the
// instrumented controller code and by the simulation harness.
//
// With no active Run (Cur() == nil) every function here behaves exactly like the
// call it replaced: os.* for files, net.* for sockets and DNS, ascending key order
// for map ranges, no-op gates and yields. This is what lets the repository's own
// tests run unchanged on the instrumented copy.
package zzsimrt

import (
	"cmp"
	"fmt"
	"iter"
	"math/rand/v2"
	"reflect"
	"slices"
	"sort"
	"sync"
	"sync/atomic"
)

// Run is the state of one simulated execution.
type Run struct {
	Tape *Tape
	Disk *Disk
	Net  NetSim

	// MapOrder enables permuted map iteration. The harness switches it off
	// while an oracle (fresh controller) runs.
	MapOrder bool
	// Quiet marks the sections in which the harness itself (oracle pipelines)
	// runs controller code: no faults, no scheduling points, no permutation.
	Quiet bool
	// QuietOrder keeps map permutation on inside a Quiet section (C06: fresh
	// pipelines that differ in processing order only).
	QuietOrder bool
	// Crashed makes every seam fail: the controller generation that is still
	// running can no longer touch the outside world.
	Crashed bool

	// Activity counts seam calls (used for quiescence detection).
	Activity atomic.Int64

	mu      sync.Mutex
	parked  []*ParkedGate
	gateSeq int
	// GatesOn enables gates. Off: Gate() returns at once.
	GatesOn bool
	// InFlight is the number of gated tasks released and not finished.
	inFlight atomic.Int32

	// FaultHook decides whether the fault point fires. nil = never.
	FaultHook func(kind, detail string) bool
	// SchedHook is called at scheduling points reached from inside controller
	// code (client reads, disk and socket calls). nil = nothing.
	SchedHook func(site string)

	// Yield hook for the cooperative scheduler (C14 build). nil = no-op.
	YieldHook func(site string)

	Stats map[string]int
}

var cur atomic.Pointer[Run]

// Cur returns the active run or nil.
func Cur() *Run { return cur.Load() }

// SetCur installs (or clears, with nil) the active run.
func SetCur(r *Run) { cur.Store(r) }

func (r *Run) Stat(name string) {
	r.mu.Lock()
	if r.Stats == nil {
		r.Stats = map[string]int{}
	}
	r.Stats[name]++
	r.mu.Unlock()
}

func (r *Run) StatN(name string, n int) {
	r.mu.Lock()
	if r.Stats == nil {
		r.Stats = map[string]int{}
	}
	r.Stats[name] += n
	r.mu.Unlock()
}

// Fault asks whether the named fault point fires now.
func (r *Run) Fault(kind, detail string) bool {
	if r == nil || r.Quiet || r.FaultHook == nil {
		return false
	}
	if r.FaultHook(kind, detail) {
		r.Stat("fault." + kind)
		return true
	}
	return false
}

// Sched is a scheduling point inside controller code.
func (r *Run) Sched(site string) {
	if r == nil || r.Quiet {
		return
	}
	r.Activity.Add(1)
	if r.SchedHook != nil {
		r.SchedHook(site)
	}
}

// ---------------------------------------------------------------------------
// Tape: every random decision of a run.

// Tape holds one independent stream of choices per site. In generate mode a
// stream draws from a PRNG derived from (seed, site) and records the values; in
// replay mode it returns the recorded values, and 0 once they are exhausted or
// when the recorded value does not fit the current range.
type Tape struct {
	Seed    uint64
	Replay  bool
	mu      sync.Mutex
	streams map[string]*stream
	// Zero lists site prefixes whose choices are forced to 0 (used by the
	// minimiser and by "sorted order" configurations).
	Zero []string
}

type stream struct {
	rng  *rand.Rand
	vals []int
	pos  int
	zero bool
}

// NewTape returns a generating tape.
func NewTape(seed uint64) *Tape {
	return &Tape{Seed: seed, streams: map[string]*stream{}}
}

// NewReplayTape returns a tape that replays the recorded values.
func NewReplayTape(seed uint64, rec map[string][]int) *Tape {
	t := &Tape{Seed: seed, Replay: true, streams: map[string]*stream{}}
	for site, vals := range rec {
		t.streams[site] = &stream{vals: vals}
	}
	return t
}

func hashSite(seed uint64, site string) (uint64, uint64) {
	// FNV-1a 64 over the site, mixed with the seed.
	var h uint64 = 14695981039346656037
	for i := 0; i < len(site); i++ {
		h ^= uint64(site[i])
		h *= 1099511628211
	}
	return seed ^ 0x9e3779b97f4a7c15, h ^ (seed * 0xbf58476d1ce4e5b9)
}

func (t *Tape) stream(site string) *stream {
	s := t.streams[site]
	if s == nil {
		s = &stream{}
		if !t.Replay {
			a, b := hashSite(t.Seed, site)
			s.rng = rand.New(rand.NewPCG(a, b))
		}
		for _, z := range t.Zero {
			if len(site) >= len(z) && site[:len(z)] == z {
				s.zero = true
			}
		}
		t.streams[site] = s
	}
	return s
}

// Choose returns a value in [0,n).
func (t *Tape) Choose(site string, n int) int {
	if n <= 1 {
		return 0
	}
	t.mu.Lock()
	defer t.mu.Unlock()
	s := t.stream(site)
	if s.zero {
		return 0
	}
	if t.Replay || s.rng == nil {
		v := 0
		if s.pos < len(s.vals) {
			v = s.vals[s.pos]
		}
		s.pos++
		if v < 0 || v >= n {
			v = 0
		}
		return v
	}
	v := s.rng.IntN(n)
	s.vals = append(s.vals, v)
	s.pos++
	return v
}

// Chance is true with probability num/den.
func (t *Tape) Chance(site string, num, den int) bool {
	if num <= 0 {
		return false
	}
	return t.Choose(site, den) < num
}

// Record returns the recorded values of every stream (trailing zeros trimmed).
func (t *Tape) Record() map[string][]int {
	t.mu.Lock()
	defer t.mu.Unlock()
	out := map[string][]int{}
	for site, s := range t.streams {
		vals := s.vals
		if t.Replay {
			if s.pos < len(vals) {
				vals = vals[:s.pos]
			}
		}
		n := len(vals)
		for n > 0 && vals[n-1] == 0 {
			n--
		}
		if n > 0 {
			out[site] = append([]int(nil), vals[:n]...)
		}
	}
	return out
}

// Draws returns the total number of choices made.
func (t *Tape) Draws() int {
	t.mu.Lock()
	defer t.mu.Unlock()
	n := 0
	for _, s := range t.streams {
		n += s.pos
	}
	return n
}

// ---------------------------------------------------------------------------
// Map iteration order

// Range replaces `range m` for a map m. Keys are snapshotted and sorted
// canonically; with an active run and MapOrder on they are then permuted by a
// choice of the run's tape. Keys deleted while iterating are skipped and the
// current value is yielded, as the Go specification allows.
func Range[M ~map[K]V, K comparable, V any](site string, m M) iter.Seq2[K, V] {
	return func(yield func(K, V) bool) {
		if len(m) == 0 {
			return
		}
		keys := make([]K, 0, len(m))
		for k := range m {
			keys = append(keys, k)
		}
		sortKeys(keys)
		if r := Cur(); r != nil && (r.MapOrder && !r.Quiet || r.QuietOrder) && len(keys) > 1 {
			sub := r.Tape.Choose("map:"+site, 1<<30)
			if sub != 0 {
				rng := rand.New(rand.NewPCG(uint64(sub), 0x5851f42d4c957f2d))
				rng.Shuffle(len(keys), func(i, j int) { keys[i], keys[j] = keys[j], keys[i] })
				r.Stat("maporder.permuted")
			}
		}
		for _, k := range keys {
			v, ok := m[k]
			if !ok {
				continue
			}
			if !yield(k, v) {
				return
			}
		}
	}
}

func sortKeys[K comparable](keys []K) {
	switch ks := any(keys).(type) {
	case []string:
		sort.Strings(ks)
	case []int:
		sort.Ints(ks)
	case []int32:
		slices.Sort(ks)
	case []int64:
		slices.Sort(ks)
	case []uint32:
		slices.Sort(ks)
	case []uint64:
		slices.Sort(ks)
	case []bool:
		slices.SortFunc(ks, func(a, b bool) int {
			if a == b {
				return 0
			}
			if !a {
				return -1
			}
			return 1
		})
	default:
		rv := reflect.ValueOf(keys)
		if rv.Len() > 0 {
			switch rv.Index(0).Kind() {
			case reflect.String:
				sort.Slice(keys, func(i, j int) bool {
					return reflect.ValueOf(keys[i]).String() < reflect.ValueOf(keys[j]).String()
				})
				return
			case reflect.Int, reflect.Int8, reflect.Int16, reflect.Int32, reflect.Int64:
				sort.Slice(keys, func(i, j int) bool {
					return reflect.ValueOf(keys[i]).Int() < reflect.ValueOf(keys[j]).Int()
				})
				return
			case reflect.Uint, reflect.Uint8, reflect.Uint16, reflect.Uint32, reflect.Uint64:
				sort.Slice(keys, func(i, j int) bool {
					return reflect.ValueOf(keys[i]).Uint() < reflect.ValueOf(keys[j]).Uint()
				})
				return
			case reflect.Ptr, reflect.UnsafePointer, reflect.Chan:
				// Pointer keys have no canonical order that survives a
				// process restart; keep insertion-independent but stable
				// order by formatting the pointee when possible.
				sort.SliceStable(keys, func(i, j int) bool {
					return ptrRank(keys[i]) < ptrRank(keys[j])
				})
				return
			}
		}
		sort.Slice(keys, func(i, j int) bool {
			return cmp.Less(fmt.Sprintf("%#v", keys[i]), fmt.Sprintf("%#v", keys[j]))
		})
	}
}

// ptrRank orders pointer keys by the rendering of what they point at. Two
// distinct pointers with equal pointees tie; the stable sort then keeps the
// order in which Go's iteration delivered them, which is the one residual
// source of nondeterminism and is reported by the instrumenter (it counts
// pointer-keyed sites).
func ptrRank(k any) string {
	rv := reflect.ValueOf(k)
	if rv.Kind() == reflect.Ptr && !rv.IsNil() {
		e := rv.Elem()
		if e.Kind() == reflect.Struct {
			// Use the first few exported string/int fields.
			s := ""
			for i := 0; i < e.NumField() && i < 6; i++ {
				f := e.Field(i)
				switch f.Kind() {
				case reflect.String:
					s += f.String() + "|"
				case reflect.Int, reflect.Int32, reflect.Int64:
					s += fmt.Sprint(f.Int()) + "|"
				}
			}
			return s
		}
	}
	return ""
}
