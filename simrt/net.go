package zzsimrt

import (
	"net"
	"runtime"
	"sort"
	"sync"
	"time"
)

// NetSim is implemented by the harness (SimHAProxy + SimDNS).
type NetSim interface {
	Dial(network, address string) (net.Conn, error)
	SocketExists(path string) bool
	LookupIP(host string) ([]net.IP, error)
	LookupHost(host string) ([]string, error)
}

// Dial replaces net.Dial.
func Dial(network, address string) (net.Conn, error) {
	r := Cur()
	if r == nil || r.Net == nil {
		return net.Dial(network, address)
	}
	r.Sched("net.dial:" + address)
	return r.Net.Dial(network, address)
}

// LookupIP replaces net.LookupIP.
func LookupIP(host string) ([]net.IP, error) {
	r := Cur()
	if r == nil || r.Net == nil {
		return net.LookupIP(host)
	}
	return r.Net.LookupIP(host)
}

// LookupHost replaces net.LookupHost.
func LookupHost(host string) ([]string, error) {
	r := Cur()
	if r == nil || r.Net == nil {
		return net.LookupHost(host)
	}
	return r.Net.LookupHost(host)
}

// ---------------------------------------------------------------------------
// Gates: entry points of independently scheduled controller goroutines.

// ParkedGate is a controller goroutine waiting at a gate.
type ParkedGate struct {
	Name string
	Seq  int
	// At is the (fake) instant the task reached the gate.
	At   time.Time
	ch   chan bool // true = go on, false = die (runtime.Goexit)
	done chan struct{}
	// Zombie gates belong to a crashed controller generation.
	Zombie bool
}

// GateToken is returned by Gate and handed to GateDone.
type GateToken struct {
	r *Run
	g *ParkedGate
}

// Gate parks the calling goroutine until the driver releases it. The
// instrumenter inserts `defer zzsimrt.GateDone(zzsimrt.Gate("name"))` as the
// first statement of the gated functions.
func Gate(name string) GateToken {
	r := Cur()
	if r == nil || !r.GatesOn || r.Quiet {
		return GateToken{}
	}
	g := &ParkedGate{Name: name, ch: make(chan bool, 1), done: make(chan struct{})}
	r.mu.Lock()
	r.gateSeq++
	g.Seq = r.gateSeq
	g.At = time.Now()
	r.parked = append(r.parked, g)
	r.mu.Unlock()
	r.Activity.Add(1)
	r.Stat("gate." + name)
	if ok := <-g.ch; !ok {
		runtime.Goexit()
	}
	return GateToken{r: r, g: g}
}

// GateDone marks the gated task finished.
func GateDone(t GateToken) {
	if t.g == nil {
		return
	}
	t.r.inFlight.Add(-1)
	close(t.g.done)
}

// Parked returns the live parked gates, sorted by (name, seq).
func (r *Run) Parked() []*ParkedGate {
	r.mu.Lock()
	defer r.mu.Unlock()
	var out []*ParkedGate
	for _, g := range r.parked {
		if !g.Zombie {
			out = append(out, g)
		}
	}
	sort.Slice(out, func(i, j int) bool {
		if out[i].Name != out[j].Name {
			return out[i].Name < out[j].Name
		}
		return out[i].Seq < out[j].Seq
	})
	return out
}

func (r *Run) removeParked(g *ParkedGate) {
	r.mu.Lock()
	defer r.mu.Unlock()
	for i, p := range r.parked {
		if p == g {
			r.parked = append(r.parked[:i], r.parked[i+1:]...)
			return
		}
	}
}

// Release lets the gated task run and returns a channel closed when the
// task's function returns.
func (r *Run) Release(g *ParkedGate) <-chan struct{} {
	r.removeParked(g)
	r.inFlight.Add(1)
	g.ch <- true
	return g.done
}

// InFlight reports the number of released, unfinished gated tasks.
func (r *Run) InFlight() int { return int(r.inFlight.Load()) }

// ZombifyParked marks every parked gate as belonging to a dead generation.
func (r *Run) ZombifyParked() int {
	r.mu.Lock()
	defer r.mu.Unlock()
	n := 0
	for _, g := range r.parked {
		if !g.Zombie {
			g.Zombie = true
			n++
		}
	}
	return n
}

// KillAll terminates every parked goroutine (end of run).
func (r *Run) KillAll() {
	r.mu.Lock()
	ps := r.parked
	r.parked = nil
	r.GatesOn = false
	r.mu.Unlock()
	for _, g := range ps {
		g.ch <- false
	}
}

// ---------------------------------------------------------------------------
// Cooperative yields (C14 build only)

// Yield is inserted before statements of watchers.go in the C14 build.
func Yield(site string) {
	r := Cur()
	if r == nil || r.YieldHook == nil {
		return
	}
	r.YieldHook(site)
}

// Mutex replaces sync.Mutex in the files instrumented with yields. Without a
// cooperative scheduler it is a sync.Mutex. With one (exactly one task runs at
// a time) Lock spins through the scheduler while the mutex is held, so the
// scheduler decides who gets it and observes mutual exclusion if the code
// provides it.
type Mutex struct {
	mu   sync.Mutex
	held bool
}

func (m *Mutex) Lock() {
	r := Cur()
	if r == nil || r.YieldHook == nil {
		m.mu.Lock()
		return
	}
	for m.held {
		r.YieldHook("mutex.wait")
	}
	m.held = true
}

func (m *Mutex) Unlock() {
	r := Cur()
	if r == nil || r.YieldHook == nil {
		m.mu.Unlock()
		return
	}
	m.held = false
}
