package zzsimrt

import (
	"errors"
	"io/fs"
	"os"
	"path/filepath"
	"sort"
	"strings"
	"sync"
	"syscall"
	"time"
)

// Disk is the simulated file system: a flat map path -> content. Directories are
// implicit. It survives a simulated controller crash.
type Disk struct {
	mu    sync.Mutex
	files map[string]*diskFile
	// Writes counts successful writes per path (reach probe / C05 evidence).
	Writes map[string]int
	// Log of mutations since the last ResetLog (path list), for oracles.
	log []string
}

type diskFile struct {
	data  []byte
	mtime time.Time
}

func NewDisk() *Disk {
	return &Disk{files: map[string]*diskFile{}, Writes: map[string]int{}}
}

func clean(p string) string { return filepath.Clean(p) }

// Get returns a copy of the file content.
func (d *Disk) Get(path string) ([]byte, bool) {
	d.mu.Lock()
	defer d.mu.Unlock()
	f, ok := d.files[clean(path)]
	if !ok {
		return nil, false
	}
	return append([]byte(nil), f.data...), true
}

// Put writes without faults (harness use).
func (d *Disk) Put(path string, data []byte) {
	d.mu.Lock()
	defer d.mu.Unlock()
	d.files[clean(path)] = &diskFile{data: append([]byte(nil), data...), mtime: time.Now()}
}

// Delete removes without faults (harness use).
func (d *Disk) Delete(path string) {
	d.mu.Lock()
	defer d.mu.Unlock()
	delete(d.files, clean(path))
}

// List returns the sorted paths under the prefix.
func (d *Disk) List(prefix string) []string {
	d.mu.Lock()
	defer d.mu.Unlock()
	var out []string
	for p := range d.files {
		if strings.HasPrefix(p, prefix) {
			out = append(out, p)
		}
	}
	sort.Strings(out)
	return out
}

// TakeLog returns and clears the list of paths written or removed.
func (d *Disk) TakeLog() []string {
	d.mu.Lock()
	defer d.mu.Unlock()
	l := d.log
	d.log = nil
	return l
}

type fileInfo struct {
	name  string
	size  int64
	mtime time.Time
}

func (f fileInfo) Name() string       { return f.name }
func (f fileInfo) Size() int64        { return f.size }
func (f fileInfo) Mode() fs.FileMode  { return 0644 }
func (f fileInfo) ModTime() time.Time { return f.mtime }
func (f fileInfo) IsDir() bool        { return false }
func (f fileInfo) Sys() any           { return nil }

func pathErr(op, path string, err error) error {
	return &fs.PathError{Op: op, Path: path, Err: err}
}

// ---------------------------------------------------------------------------
// os.* replacements

// WriteFile replaces os.WriteFile.
func WriteFile(name string, data []byte, perm os.FileMode) error {
	r := Cur()
	if r == nil || r.Disk == nil {
		return os.WriteFile(name, data, perm)
	}
	if r.Crashed {
		return pathErr("open", name, syscall.EIO)
	}
	r.Sched("disk.write:" + name)
	if r.Crashed {
		return pathErr("open", name, syscall.EIO)
	}
	d := r.Disk
	p := clean(name)
	if r.Fault("disk.write_fail", p) {
		return pathErr("open", name, syscall.EACCES)
	}
	// the same failure restricted to certificate material (written by the cache facade while the
	// resources are parsed, outside HAProxyUpdate)
	if strings.Contains(p, "/var/lib/haproxy/") && r.Fault("disk.crt_write_fail", p) {
		return pathErr("open", name, syscall.EACCES)
	}
	if r.Fault("disk.enospc", p) {
		// os.WriteFile truncates first: the file is left empty.
		d.mu.Lock()
		d.files[p] = &diskFile{data: nil, mtime: time.Now()}
		d.log = append(d.log, p)
		d.mu.Unlock()
		return pathErr("write", name, syscall.ENOSPC)
	}
	if len(data) > 1 && r.Fault("disk.write_torn", p) {
		n := 1 + r.Tape.Choose("disk.torn.len", len(data)-1)
		d.mu.Lock()
		d.files[p] = &diskFile{data: append([]byte(nil), data[:n]...), mtime: time.Now()}
		d.log = append(d.log, p)
		d.mu.Unlock()
		return pathErr("write", name, syscall.EIO)
	}
	d.mu.Lock()
	d.files[p] = &diskFile{data: append([]byte(nil), data...), mtime: time.Now()}
	d.Writes[p]++
	d.log = append(d.log, p)
	d.mu.Unlock()
	return nil
}

// ReadFile replaces os.ReadFile.
func ReadFile(name string) ([]byte, error) {
	r := Cur()
	if r == nil || r.Disk == nil {
		return os.ReadFile(name)
	}
	if r.Crashed {
		return nil, pathErr("open", name, syscall.EIO)
	}
	r.Sched("disk.read:" + name)
	p := clean(name)
	if r.Fault("disk.read_fail", p) {
		return nil, pathErr("read", name, syscall.EIO)
	}
	data, ok := r.Disk.Get(p)
	if !ok {
		return nil, pathErr("open", name, fs.ErrNotExist)
	}
	return data, nil
}

// Stat replaces os.Stat.
func Stat(name string) (os.FileInfo, error) {
	r := Cur()
	if r == nil || r.Disk == nil {
		return os.Stat(name)
	}
	p := clean(name)
	d := r.Disk
	d.mu.Lock()
	defer d.mu.Unlock()
	f, ok := d.files[p]
	if !ok {
		// sockets are files as well: ask the network model
		if r.Net != nil && r.Net.SocketExists(p) {
			return fileInfo{name: filepath.Base(p)}, nil
		}
		return nil, pathErr("stat", name, fs.ErrNotExist)
	}
	return fileInfo{name: filepath.Base(p), size: int64(len(f.data)), mtime: f.mtime}, nil
}

// Rename replaces os.Rename.
func Rename(oldpath, newpath string) error {
	r := Cur()
	if r == nil || r.Disk == nil {
		return os.Rename(oldpath, newpath)
	}
	if r.Crashed {
		return &os.LinkError{Op: "rename", Old: oldpath, New: newpath, Err: syscall.EIO}
	}
	r.Sched("disk.rename:" + oldpath)
	if r.Fault("disk.rename_fail", clean(oldpath)) {
		return &os.LinkError{Op: "rename", Old: oldpath, New: newpath, Err: syscall.EACCES}
	}
	d := r.Disk
	d.mu.Lock()
	defer d.mu.Unlock()
	f, ok := d.files[clean(oldpath)]
	if !ok {
		return &os.LinkError{Op: "rename", Old: oldpath, New: newpath, Err: fs.ErrNotExist}
	}
	delete(d.files, clean(oldpath))
	d.files[clean(newpath)] = f
	d.log = append(d.log, clean(oldpath), clean(newpath))
	return nil
}

// Remove replaces os.Remove.
func Remove(name string) error {
	r := Cur()
	if r == nil || r.Disk == nil {
		return os.Remove(name)
	}
	if r.Crashed {
		return pathErr("remove", name, syscall.EIO)
	}
	r.Sched("disk.remove:" + name)
	d := r.Disk
	d.mu.Lock()
	defer d.mu.Unlock()
	p := clean(name)
	if _, ok := d.files[p]; !ok {
		return pathErr("remove", name, fs.ErrNotExist)
	}
	delete(d.files, p)
	d.log = append(d.log, p)
	return nil
}

// IsNotExist mirrors os.IsNotExist for convenience of rewritten code.
func IsNotExist(err error) bool { return errors.Is(err, fs.ErrNotExist) }
