//go:build verif

package services

// Simulation seams of package services (compiled only with -tags verif, in the
// scratch copy the checks build). Leader election needs an API server to hold a
// lease against; the harness decides leadership instead and this file does what
// svcLeader.onStartedLeading / onStoppedLeading do: start or stop the
// leader-only runnables and tell the subscribers.

import (
	"context"

	convtypes "github.com/jcmoraisjr/haproxy-ingress/pkg/converters/types"
)

var (
	simLeader *bool
	simCancel context.CancelFunc
	// SimAcmeHook observes the calls the haproxy instance makes on the acme queue facade.
	SimAcmeHook func(op string, item any)
)

func simAcmeNote(op string, item any) {
	if SimAcmeHook != nil {
		SimAcmeHook(op, item)
	}
}

// SimBatchDeliveredHook gets the change descriptions of every batch handed to ReconcileIngress (C14, L2).
var SimBatchDeliveredHook func(objects []string)

func simBatchDelivered(changed *convtypes.ChangedObjects) {
	if SimBatchDeliveredHook != nil && changed != nil {
		SimBatchDeliveredHook(append([]string{}, changed.Objects...))
	}
}

// SimReset clears the simulation state of the package (one run per call).
func SimReset() {
	simLeader = nil
	simCancel = nil
	SimAcmeHook = nil
	SimBatchDeliveredHook = nil
}

// SimSetLeader makes this controller the leader, or takes leadership away.
func (s *Services) SimSetLeader(ctx context.Context, leader bool) {
	cur := simLeader != nil && *simLeader
	v := leader
	simLeader = &v
	if leader == cur {
		return
	}
	if leader {
		rctx, cancel := context.WithCancel(ctx)
		simCancel = cancel
		if s.acmeClient != nil {
			go func() { _ = s.acmeClient.Start(rctx) }()
		}
	} else if simCancel != nil {
		simCancel()
		simCancel = nil
	}
	for _, f := range s.svcleader.subscribers {
		go f(ctx, leader)
	}
}

// SimAcmePeriodicCheck runs what the periodic timer and the external call run.
func (s *Services) SimAcmePeriodicCheck() (int, error) { return s.acmePeriodicCheck() }
