//go:build verif

package reconciler

// Injected by the hapsim driver into the scratch copy only (never into the
// repository): exports the real watchers, handlers and batch swap so that the
// simulation can drive them from scheduler-owned tasks (property C14).

import (
	"context"

	"k8s.io/client-go/util/workqueue"
	"sigs.k8s.io/controller-runtime/pkg/client"
	"sigs.k8s.io/controller-runtime/pkg/event"

	"github.com/jcmoraisjr/haproxy-ingress/pkg/controller/config"
	"github.com/jcmoraisjr/haproxy-ingress/pkg/controller/services"
	"github.com/jcmoraisjr/haproxy-ingress/pkg/converters/types"
)

// HapsimWatchers wraps the unexported watchers.
type HapsimWatchers struct {
	w        *watchers
	handlers []*hdlr
	q        *hapsimQueue
}

// HapsimHandler is one registered kind.
type HapsimHandler struct {
	h *hdlr
	q *hapsimQueue
}

type hapsimQueue struct {
	workqueue.TypedRateLimitingInterface[rparam]
	Adds []bool
}

func (q *hapsimQueue) AddRateLimited(r rparam) { q.Adds = append(q.Adds, r.fullsync) }

func HapsimNewWatchers(ctx context.Context, cfg *config.Config, val services.IsValidResource) *HapsimWatchers {
	w := createWatchers(ctx, cfg, val)
	return &HapsimWatchers{w: w, handlers: w.getHandlers(), q: &hapsimQueue{}}
}

func (hw *HapsimWatchers) Handlers() []HapsimHandler {
	out := make([]HapsimHandler, len(hw.handlers))
	for i, h := range hw.handlers {
		out[i] = HapsimHandler{h: h, q: hw.q}
	}
	return out
}

func (hw *HapsimWatchers) GetChangedObjects() *types.ChangedObjects { return hw.w.getChangedObjects() }
func (hw *HapsimWatchers) QueueAdds() []bool                        { return hw.q.Adds }

func (h HapsimHandler) Type() client.Object { return h.h.typ }
func (h HapsimHandler) Resource() string    { return string(h.h.res) }
func (h HapsimHandler) Full() bool          { return h.h.full }

// Create / Update / Delete do what controller-runtime's EventHandler does:
// every predicate must accept, then the handler runs. They return whether the
// handler ran.
func (h HapsimHandler) Create(obj client.Object) bool {
	e := event.TypedCreateEvent[client.Object]{Object: obj}
	for _, p := range h.h.pr {
		if !p.Create(e) {
			return false
		}
	}
	h.h.Create(context.Background(), e, h.q)
	return true
}

func (h HapsimHandler) Update(old, new client.Object) bool {
	e := event.TypedUpdateEvent[client.Object]{ObjectOld: old, ObjectNew: new}
	for _, p := range h.h.pr {
		if !p.Update(e) {
			return false
		}
	}
	h.h.Update(context.Background(), e, h.q)
	return true
}

func (h HapsimHandler) Delete(obj client.Object) bool {
	e := event.TypedDeleteEvent[client.Object]{Object: obj}
	for _, p := range h.h.pr {
		if !p.Delete(e) {
			return false
		}
	}
	h.h.Delete(context.Background(), e, h.q)
	return true
}

// SimReconcileHook observes the parameter of every reconciliation request (C13, L2).
var SimReconcileHook func(fullsync bool)

func simReconcileNote(fullsync bool) {
	if SimReconcileHook != nil {
		SimReconcileHook(fullsync)
	}
}

// SimBatchTakenHook gets the change descriptions the watchers hold when a reconciliation is about to take
// its batch (C14, L2; the batch that reaches the services is observed by services.SimBatchDeliveredHook).
var SimBatchTakenHook func(objects []string)

func simBatchTaken(w *watchers) {
	if SimBatchTakenHook == nil {
		return
	}
	w.mu.Lock()
	objs := append([]string{}, w.ch.Objects...)
	w.mu.Unlock()
	SimBatchTakenHook(objs)
}
