//go:build verif

package acme

// SimClientFactory, when set, provides the ACME protocol client of the signer
// (the real one talks to the certificate authority over the network). A nil
// result means the account cannot be used.
var SimClientFactory func(endpoint, emails string, termsAgreed bool) Client
