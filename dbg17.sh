#!/bin/sh
B=$(/verif/bin/hapsim build 2>/dev/null | tail -1); cd $B && HAPSIM_TRACE=1 HAPSIM_REPLAY=$1 ./hapsim.test -test.run TestSim | head -1 | python3 -c "
import sys,json
r=json.loads(sys.stdin.readline())
for t in r.get('trace',[]):
    if 'Starting' in t or t.split('] ')[-1].startswith('notify'): continue
    if 'level\"=' in t and 'acme' not in t.lower() and 'applying' not in t and 'syncing' not in t: continue
    if 'master<' in t or 'haproxy reload' in t: continue
    print(t[:${2:-300}])
" | tail -${3:-40}
