#!/bin/sh
# dev helper: sync harness+simrt into the dev scratch tree and build the test binary
export GOFLAGS=-mod=mod GOPROXY=off GOSUMDB=off GOTOOLCHAIN=local PATH=/opt/veriftools/go1.26.8/bin:$PATH
S=/dev/shm/hapsim-dev
mkdir -p $S/zzhapsim && rm -f $S/zzhapsim/*.go && cp /verif/harness/*.go $S/zzhapsim/ && cp /verif/simrt/*.go $S/zzsimrt/ && cd $S && go test -c -o $S/hapsim.test ./zzhapsim/ 2>&1 | head -${LINES:-40}
