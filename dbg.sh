#!/bin/sh
# usage: dbg.sh <replay> : trace + dump of long-running vs fresh files
B=$(/verif/bin/hapsim build 2>/dev/null)
rm -rf /tmp/dump; cd $B && HAPSIM_DUMP=/tmp/dump HAPSIM_TRACE=1 HAPSIM_REPLAY=$1 ./hapsim.test -test.run TestSim | python3 -c "
import sys,json
r=json.loads(sys.stdin.readline())
for t in r.get('trace',[]):
    if 'Starting' in t: continue
    print(t[:400])
print(r.get('error',''))
"
L=$(ls -d /tmp/dump/*-long | tail -1); F=$(ls -d /tmp/dump/*-fresh | tail -1)
sed -i 's#/sim/main##g' $(find $L -type f); sed -i -E 's#/sim/oracle[0-9]+##g' $(find $F -type f)
diff -r $L $F | grep -v "^[<>] [A-Za-z0-9+/=]*$" | head -${2:-60}
