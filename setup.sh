#!/bin/sh
# Builds the hapsim driver and the source instrumenter offline.
set -e
cd "$(dirname "$0")"
export GOFLAGS=-mod=mod GOPROXY=off GOSUMDB=off GOTOOLCHAIN=local
export PATH=/opt/veriftools/go1.26.8/bin:$PATH
mkdir -p bin evidence replays
go build -o bin/hapsim-instrument ./instrument
go build -o bin/hapsim ./cmd/hapsim
