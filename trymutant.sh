#!/bin/sh
# usage: trymutant.sh <patch> <PROP> [runs] : apply, build/test quickly, run check, revert
P=$1; PROP=$2; RUNS=${3:-2400}
cd /repo && git apply $P || { echo "APPLY FAILED"; exit 1; }
go build ./... || { echo BUILD FAILED; git checkout -- .; exit 1; }
cd /verif && bin/hapsim check $PROP --runs $RUNS 2>&1 | grep -v "^hapsim-instr\|hapsim: built\|^KNOWN-FINDING" | cut -c1-400 | tail -${LINES:-6}
git -C /repo checkout -- .
